"""C13 Connectors start and end on the referenced elements (attribute hygiene, route structure, wiring)."""
from sa import rules as R, hirq
from sa.prog import P, Callee, op_place, op_const, const_str
from props.C11 import let_table

EXPLANATION = (
    "(1) hygiene: start, end and corner-offset are popped from the source element on every successful path of "
    "Connector::from_element, the rendered element inherits only the remaining attributes, and transmute strips edge-type from "
    "the rendered connector; (2) route structure of corner polylines: in every arm of the direction match consecutive points "
    "share an operand in one coordinate (every segment is axis-parallel), the route starts at the start point and ends at the "
    "end point, the first segment leaves perpendicular to the start edge and the last enters perpendicular to the end edge; "
    "U-shaped routes go beyond the boxes on the side of their direction (min-offset for left/up, max+offset for right/down); "
    "horizontal / vertical connectors are axis-parallel lines through the middle of the overlap (max of the mins, min of the "
    "maxes on the shared axis), both siblings resolving endpoint boxes through the element map; (3) wiring: location -> "
    "direction table and connection-type words. Undecided: minimal-distance choice, offsets, the overlap arithmetic (numeric)."
    " A17: h/v/straight connector coordinates (middle of the overlap; literal endpoints) agree as terms with the reference algebra; every candidate location (pair) is measured and compared."
)
TRUSTED = []
ASSUMPTIONS = []

CON = "svgdx::connector::"
VERT = {"Up", "Down"}
HORZ = {"Left", "Right"}
LOC_DIR_REF = {"Top": "Up", "TopEdge": "Up", "Right": "Right", "RightEdge": "Right", "Bottom": "Down", "BottomEdge": "Down", "Left": "Left", "LeftEdge": "Left"}


def run(prog, chk):
    chk.rule(hygiene, prog, chk)
    chk.rule(routes, prog, chk)
    chk.rule(axis_lines, prog, chk)
    chk.rule(wiring, prog, chk)
    chk.rule(location_choice, prog, chk)
    chk.rule(chooser_runs_only_for_unset_ends, prog, chk)
    chk.rule(all_candidates_measured, prog, chk)
    chk.rule(connection_type_verbatim, prog, chk)
    chk.rule(chosen_only_when_not_given, prog, chk)
    from props import C08
    chk.rule(C08.use_translation, prog, chk)  # an end point on a <use> with only x (or only y) is on the translated copy
    chk.rule(candidate_table, prog, chk)
    from props import geomalg
    chk.rule(geomalg.check_sites, prog, chk, "C13")
    chk.rule(geomalg.check_float_truncation, prog, chk)  # no float is cut down to an integer on the way (a truncated distance / coordinate makes different candidates tie)
    chk.rule(geomalg.check, prog, chk, "C13", floor=30)
    from props import C04 as _C04
    chk.rule(_C04.consumed, prog, chk)  # start / end are consumed by the connector code only: a rewrite that removes them first turns a connector into a plain line
    from props import C10 as _C10, C09 as _C09
    chk.rule(_C10.registration_keys_agree, prog, chk)  # `start="#b"` resolves against the element registered under that id: a stale provisional registration answers with a half-defined box
    chk.rule(_C09.prev_point, prog, chk)  # `start="^"` after a <point>: the point is the previous element
    from props import C19 as _C19t
    chk.rule(_C19t.text_not_altered, prog, chk)  # a connector written with start and end tag and white space between them is a connector


def _lit(body, t, i):
    if len(t["args"]) <= i:
        return None
    o = R.origin(body, t["args"][i], carriers=dict(R.CARRIERS))
    return o[1].get("str") if o[0] == "const" else None


def hygiene(prog, chk):
    fe = prog.body(CON + "Connector::from_element")
    chk.touch(fe)
    from props import C04 as _C04
    pops, recvs, computed = {}, set(), []
    for (bb, t, names) in _C04.removal_sites(prog, fe):
        # pop_attr("start"), remove_attrs(&["start", ..]), remove_attrs(TABLE)
        if names is None:
            computed.append(bb)
            continue
        for k in names:
            pops.setdefault(k, bb)
        recvs.add(R.origin_local(fe, t["args"][0]))
    oks = [x for x, i, s in fe.all_stmts() if "lhs" in s and s["lhs"][0] == 0 and not s["lhs"][1] and s["rv"].get("variant") == "Ok"]
    for k in ("start", "end", "corner-offset"):
        ok = k in pops and bool(oks) and all(fe.dominates(pops[k], x) for x in oks)
        if not ok and k not in pops and computed:
            chk.undecided("A14.connector-attrs", k, fe.where(), f"from_element removes attributes by a computed key; whether `{k}` is among them is not decided")
            continue
        chk.ob(ok, "A14.connector-attrs", k, fe.where(), f"`{k}` is popped from the connector's source element on every successful path", f"`{k}` is not always removed from the source element: it would be copied to the rendered line")
    # the element stored as source_element is the one the attributes were popped from
    ok = False
    for x, i, s in fe.all_stmts():
        rv = s.get("rv")
        if rv and rv["k"] == "aggr" and rv.get("adt", "").endswith("connector::Connector"):
            fn = rv.get("fnames", [])
            if "source_element" in fn:
                op = rv["ops"][fn.index("source_element")]
                src = R.origin_local(fe, op)
                ok = src is not None and recvs == {src}
    chk.ob(ok, "A14.connector-attrs", "source_element", fe.where(), "the rendered connector inherits attributes from the very element the connector attributes were popped from", "source_element is not the stripped copy of the element")
    tm = prog.body("svgdx::element::SvgElement::transmute")
    wo = [(bb, t) for (bb, t, c) in tm.call_sites(R.path_endswith("SvgElement::without_attr")) if _lit(tm, t, 1) == "edge-type"]
    rn = tm.call_sites(R.path_endswith("Connector::render"))
    ok = bool(wo) and bool(rn) and R.origin(tm, wo[0][1]["args"][0], carriers={"branch": 0})[0] == "call"
    # ... or it is removed from the stripped copy together with the other connector attributes
    ok = ok or ("edge-type" in pops and bool(oks) and all(fe.dominates(pops["edge-type"], x) for x in oks))
    chk.ob(ok, "A14.connector-attrs", "edge-type", tm.where(), "`edge-type` is stripped from the rendered connector", "`edge-type` is no longer stripped from the rendered connector")


def connection_type_verbatim(prog, chk):
    """the connection type that selects the candidate attachment locations is the one from_element was given: the
    ConnectionType argument of every closest_loc / shortest_link call is the parameter itself (not a value derived
    from it - e.g. downgraded when an endpoint is a literal point)"""
    fe = prog.body(CON + "Connector::from_element")
    chk.touch(fe)
    param = None
    for l in range(1, 8):
        if "ConnectionType" in (fe.local_ty(l) or "") and fe.local_name(l):
            param = l
            break
    sites = fe.call_sites(lambda c: c.path in (CON + "closest_loc", CON + "shortest_link"))
    chk.floor("A13.conn-type-verbatim", len(sites), 5, "closest_loc / shortest_link call in from_element")
    if param is None:
        chk.anchor_missing("A13.conn-type-verbatim", "from_element has no ConnectionType parameter")
        return
    for (bb, t, c) in sites:
        arg = None
        for a in t["args"]:
            pl = op_place(a)
            if pl is not None and "ConnectionType" in (fe.local_ty(pl[0]) or ""):
                arg = pl
        ok = False
        if arg is not None and not arg[1]:
            l = arg[0]
            for _ in range(6):
                if l == param:
                    ok = True
                    break
                defs = fe.defs_of(l)
                if len(defs) != 1 or defs[0][1] == R.TERM or defs[0][2].get("k") != "use" or op_place(defs[0][2].get("op")) is None:
                    break
                l = op_place(defs[0][2]["op"])[0]
        chk.ob(ok, "A13.conn-type-verbatim", f"from_element:{c.path.split('::')[-1]}", fe.where(bb, t.get("line")), "the candidate locations are chosen for the connection type that was requested", f"{c.path.split('::')[-1]}() is given a ConnectionType other than the one from_element received: the attachment location is chosen from the candidate set of a different connection type (e.g. corners for an elbow connector)")


def candidate_table(prog, chk):
    """the candidate attachment locations per connection type are the documented ones"""
    el = prog.maybe_body(CON + "edge_locations")
    if el is None:
        chk.anchor_missing("A15.candidate-locations", "edge_locations not found")
        return
    chk.touch(el)
    h = prog.hir[el.id]
    want = {
        "Horizontal": {"Left", "Right"},
        "Vertical": {"Top", "Bottom"},
        "Corner": {"Top", "Right", "Bottom", "Left"},
        "Straight": {"Top", "Bottom", "Left", "Right", "TopLeft", "BottomLeft", "TopRight", "BottomRight"},
    }
    got = {}
    for m in hirq.exprs(h["body"], "Match"):
        for a in m["arms"]:
            for q in ([a["pat"]] if a["pat"].get("p") != "or" else a["pat"]["pats"]):
                v = (q.get("res") or {}).get("path", "").split("::")[-1]
                if v in want:
                    got[v] = {(p.get("res") or {}).get("path", "").split("::")[-1] for p in hirq.exprs(a["body"], "Path") if "LocSpec" in (p.get("res") or {}).get("path", "")}
    for v, locs in want.items():
        chk.ob(got.get(v) == locs, "A15.candidate-locations", v, el.where(), f"{v}: candidates {sorted(locs)}", f"{v} connections choose among {sorted(got.get(v) or [])} (cannot be read from the arm if empty); the documented candidates are {sorted(locs)} - a missing candidate means the nearest location is not found on some diagonals")


def chosen_only_when_not_given(prog, chk):
    """an attachment location is chosen (closest_loc / shortest_link) only for an end whose location the author did not
    give: every `X_loc = Some(..)` in from_element sits under a test of `X_loc.is_none()` - not of some other variable
    such as the direction, which is also unset for a named corner or centre location"""
    fe = prog.body(CON + "Connector::from_element")
    h = prog.hir[fe.id]
    n = 0
    for iff in hirq.exprs(h["body"], "If"):
        then = iff["then"]
        # assignments made directly in this then-block (not inside nested ifs)
        nested = set()
        for sub in hirq.exprs(then, "If"):
            for a in hirq.exprs(sub, "Assign"):
                nested.add(id(a))
        targets = []
        for a in hirq.exprs(then, "Assign"):
            if id(a) in nested:
                continue
            fc = hirq.field_chain(a["l"])
            if fc and fc[0].endswith("_loc") and len(fc) == 1:
                targets.append(fc[0])
        chooses = any(hirq.callee_path(c).split("::")[-1] in ("closest_loc", "shortest_link") for c in hirq.exprs(then, "Call"))
        if not targets or not chooses:
            continue
        tested = sorted(hirq.field_chain(m["recv"])[0] for m in hirq.exprs(iff["cond"], "MethodCall") if m["name"] in ("is_none", "is_some") and hirq.field_chain(m["recv"]))
        for tname in sorted(set(targets)):
            n += 1
            chk.ob(tname in tested and all(x.endswith("_loc") for x in tested), "A15.location-choice", f"{tname}:only-when-absent", fe.where(line=iff.get("line")), f"`{tname}` is chosen automatically only under `{tname}.is_none()`", f"`{tname}` is assigned an automatically chosen location under a test of {tested or 'something else'} instead of `{tname}.is_none()`: a location the author named (e.g. @br, @c - which have no direction) is overwritten by the closest candidate")
    chk.floor("A15.location-choice:only-when-absent", n, 4, "automatic choice of an attachment location")


def chooser_runs_only_for_unset_ends(prog, chk):
    """decided on paths, whatever the source idiom: a location chooser (shortest_link for both ends, closest_loc for
    one) is called only on paths on which every place that will receive a part of its result is still `None`.  With
    one location given, shortest_link (which picks the pair of locations nearest to each other) must not run: the free
    end is to be the one closest to the *given* point"""
    from sa import discharge as D

    fe = prog.body(CON + "Connector::from_element")
    chk.touch(fe)
    n = 0
    for (bb, t, c) in fe.call_sites(lambda c: c.path.split("::")[-1] in ("shortest_link", "closest_loc") and c.path.startswith("svgdx::connector::")):
        if not t.get("dest") or t["dest"][1]:
            continue
        # locals that hold (a part of) the call's result: through `?`, moves and the components of the pair
        derived, work = {t["dest"][0]}, [t["dest"][0]]
        while work:
            l = work.pop()
            for (b2, i2, node, how) in R.uses_of(fe, l):
                nl = None
                if i2 == R.TERM and node.get("k") == "call" and "fn" in node and Callee(node["fn"]).decl_path == "std::ops::Try::branch" and node.get("dest") and not node["dest"][1]:
                    nl = node["dest"][0]
                elif i2 != R.TERM and "rv" in node and node["rv"].get("k") in ("use", "cast") and not node["lhs"][1] and (op_place(node["rv"].get("op")) or (None,))[0] == l:
                    nl = node["lhs"][0]
                if nl is not None and nl not in derived:
                    derived.add(nl)
                    work.append(nl)
        stores = set()
        for b2, i2, node in fe.all_stmts():
            rv = node.get("rv") or {}
            if rv.get("k") == "aggr" and rv.get("variant") == "Some" and rv.get("adt") == "std::option::Option" and rv.get("ops"):
                op0 = op_place(rv["ops"][0])
                if op0 is not None and op0[0] in derived and "lhs" in node:
                    pl = D._norm(fe, P(node["lhs"]))
                    # a temporary that is moved on into the place proper
                    for _ in range(3):
                        us = [u for u in R.uses_of(fe, pl[0]) if u[3] != "drop"] if not pl[1] and not fe.local_name(pl[0]) else []
                        mv = [u for u in us if u[1] != R.TERM and "rv" in u[2] and u[2]["rv"].get("k") == "use" and (op_place(u[2]["rv"]["op"]) or (None,))[0] == pl[0]]
                        if len(us) == 1 and mv:
                            pl = D._norm(fe, P(mv[0][2]["lhs"]))
                        else:
                            break
                    stores.add(pl)
        stores = sorted(stores)
        name = c.path.split("::")[-1]
        if not stores:
            chk.undecided("A15.location-choice", f"{name}:runs-for-unset", fe.where(bb, t.get("line")), f"where the result of {name}() is stored is not read here")
            continue
        for pl in stores:
            n += 1
            feas = D._reach_with_fact(prog, fe, bb, pl, 1)
            chk.ob(feas is False, "A15.location-choice", f"{name}:runs-for-unset:{D._pname(fe, pl)}", fe.where(bb, t.get("line")), f"{name}() runs only while `{D._pname(fe, pl)}`, which receives its result, is not given", f"{name}() can run although `{D._pname(fe, pl)}` - an end that receives its result - was given by the author: with one location given the other end must be the one closest to that point (closest_loc), not one of the pair shortest_link picks without regard to it")
    chk.floor("A15.location-choice:runs-for-unset", n, 4, "(chooser call, receiving end) pair")


def _tuple_components(e, n):
    """the n component expressions lists of a tuple-valued expression (through blocks and both branches of an if)"""
    while isinstance(e, dict) and e.get("k") in ("DropTemps", "Block") and (e.get("k") != "Block" or e.get("expr") is not None):
        e = e.get("expr") if e["k"] == "Block" else (e.get("x") or e.get("e"))
    if not isinstance(e, dict):
        return None
    if e.get("k") == "Tup" and len(e.get("items", [])) == n:
        return [[x] for x in e["items"]]
    if e.get("k") == "If" and e.get("else") is not None:
        a, b = _tuple_components(e["then"], n), _tuple_components(e["else"], n)
        if a and b:
            return [x + y for x, y in zip(a, b)]
    return None


def _end_sides(h, seeds):
    """{id(call node): [set of ends per argument]} for every call in the body: which end of the connector ('start' /
    'end') the value of each argument was computed from.  `seeds` names the locals bound to the two referenced elements;
    a later `let x = f(seed)` / `let (a, b) = (f(s), g(e))` carries the end on to the new name (shadowing included:
    the walk is in source order)."""
    env = {k: {v} for k, v in seeds.items()}

    def sides(e):
        out = set()
        for p in hirq.exprs(e, "Path"):
            l = (p.get("res") or {}).get("local")
            if l in env:
                out |= env[l]
        return out

    calls = {}
    for n in hirq.walk_ordered(h["body"]):
        if n.get("k") == "Let" and n.get("init") is not None:
            pat = n["pat"]
            if pat.get("p") == "bind":
                if pat["name"] not in seeds:
                    env[pat["name"]] = sides(n["init"])
            elif pat.get("p") == "tuple" and all(q.get("p") == "bind" for q in pat["pats"]):
                comps = _tuple_components(n["init"], len(pat["pats"]))
                for k, q in enumerate(pat["pats"]):
                    if q["name"] in seeds:
                        continue
                    env[q["name"]] = set().union(*[sides(x) for x in comps[k]]) if comps else sides(n["init"])
            else:
                for q in hirq.walk(pat):
                    if q.get("p") == "bind" and q.get("name") not in seeds:
                        env[q["name"]] = sides(n["init"])
        elif n.get("k") == "Call":
            calls[id(n)] = [sides(a) for a in n.get("args", [])]
    return calls


def location_choice(prog, chk):
    """when both endpoints are elements: no location given -> shortest_link over both; exactly one given ->
    closest_loc of the free end against the fixed point"""
    fe = prog.body(CON + "Connector::from_element")
    h = prog.hir[fe.id]
    found = {}
    scope = None
    for m in hirq.exprs(h["body"], "Match"):
        for a in m["arms"]:
            p = a["pat"]
            if p.get("p") == "tuple" and len(p["pats"]) == 2 and all(q.get("p") == "path" and q["res"].get("path", "").split("::")[-1] == "None" for q in p["pats"]):
                scope = a["body"]
    if scope is None:
        chk.anchor_missing("A15.location-choice", "the (None, None) arm of from_element (both endpoints are elements) was not found")
        return
    # which end a chooser is asked about is read off the data flow, not off the name of its first argument
    side_of = _end_sides(h, {"start_el": "start", "end_el": "end"})
    for iff in hirq.exprs(scope, "If"):
        c = iff["cond"]
        if len([1 for m in hirq.exprs(c, "MethodCall") if m["name"] == "is_none"]) == 2 and not (c.get("k") == "Binary" and c.get("op") == "And"):
            continue
        nones = sorted(hirq.field_chain(m["recv"])[0] for m in hirq.exprs(c, "MethodCall") if m["name"] == "is_none" and hirq.field_chain(m["recv"]))
        if not nones or not set(nones) <= {"start_loc", "end_loc"}:
            continue
        # calls made directly in the then-branch (not in nested ifs)
        calls = []
        for n in hirq.exprs(iff["then"], "Call"):
            name = hirq.callee_path(n).split("::")[-1]
            if name in ("shortest_link", "closest_loc"):
                sd = (side_of.get(id(n)) or [set()])[0]
                calls.append((name, {"start": "start_el", "end": "end_el"}[min(sd)] if len(sd) == 1 else None))
        if calls:
            found.setdefault(tuple(nones), calls)
    want = {
        ("end_loc", "start_loc"): [("shortest_link", "start_el")],
        ("start_loc",): [("closest_loc", "start_el")],
        ("end_loc",): [("closest_loc", "end_el")],
    }
    if not found:
        # the `X_loc.is_none()` tests on locals named start_loc / end_loc are not there to read (the end points are
        # carried in a struct, the cases are a `match`): which chooser runs in which case is not decided
        chk.undecided("A15.location-choice", "cases", fe.where(), "the missing-location cases of from_element are not written as `if start_loc.is_none() ..` over locals of those names")
        return
    for k, v in want.items():
        got = [g for kk, g in found.items() if kk == k]
        ok = any(v[0] in g for g in got)
        if not got:
            chk.undecided("A15.location-choice", "+".join(k), fe.where(), f"no branch for the case {k} found in a readable form")
            continue
        if not ok and all(a is None for g in got for (nm, a) in g if nm == v[0][0]):
            chk.undecided("A15.location-choice", "+".join(k), fe.where(), f"which end {v[0][0]}() is asked about in the case {k} cannot be traced back to one of the two referenced elements")
            continue
        chk.ob(ok, "A15.location-choice", "+".join(k), fe.where(), f"when {' and '.join(k)} {'are' if len(k) > 1 else 'is'} not given: {v[0][0]}({v[0][1]}, ..)", f"missing-location case {k} is wired as {got} (expected {v})")


def _canon(n, lets, depth=4):
    """canonical operand of a coordinate expression: 'start.0', 'end.1', or a local name"""
    while isinstance(n, dict) and n.get("k") in ("AddrOf", "Unary", "Cast"):
        n = n["x"]
    if not isinstance(n, dict):
        return "?"
    if n.get("k") == "Path":
        l = (n.get("res") or {}).get("local")
        if l in lets and depth > 0:
            init, pos = lets[l]
            if pos is not None:
                base = _canon(init, lets, depth - 1)
                return f"{base}.{pos}"
            if isinstance(init, dict) and init.get("k") in ("Path", "Field"):
                return _canon(init, lets, depth - 1)
        return l or "?"
    if n.get("k") == "Field":
        fc = hirq.field_chain(n)
        if fc:
            fc = [x for x in fc if x not in ("self", "origin")]
            return ".".join(fc)
    return "expr"


def _points_of(arm):
    """list of (x_expr, y_expr) of the route literal in an arm (vec![(..),(..)])"""
    best = []
    for a in hirq.exprs(arm, "Array"):
        pts = [it["items"] for it in a["items"] if it.get("k") == "Tup" and len(it["items"]) == 2]
        if len(pts) == len(a["items"]) and len(pts) > len(best):
            best = pts
    return best


def _dir_sets(pat):
    """(start dirs, end dirs) named by a tuple pattern of Direction variants (or-patterns flattened) - list of pairs"""
    out = []
    p = pat.get("p")
    if p == "or":
        for x in pat["pats"]:
            out += _dir_sets(x)
        return out
    if p == "tuple" and len(pat["pats"]) == 2:
        def names(q):
            if q.get("p") == "or":
                return {n for x in q["pats"] for n in names(x)}
            if q.get("p") in ("path", "tstruct"):
                nm = q["res"].get("path", "").split("::")[-1]
                if nm == "Some" and len(q.get("pats", [])) == 1:
                    return names(q["pats"][0])  # `(Some(Direction::Up), Some(..))`: the direction inside
                return {nm} if nm in ("Up", "Down", "Left", "Right") else set()
            if q.get("p") == "ref":
                return names(q["sub"])
            return set()
        out.append((names(pat["pats"][0]), names(pat["pats"][1])))
    return out


def routes(prog, chk):
    rd = prog.body(CON + "Connector::render")
    chk.touch(rd)
    h = prog.hir[rd.id]
    lets = let_table(h)
    n = 0
    for m in hirq.exprs(h["body"], "Match"):
        for arm in m["arms"]:
            ds = _dir_sets(arm["pat"])
            if not ds or not all(s and e for s, e in ds):
                continue
            pts = _points_of(arm["body"])
            starts0 = sorted({d for s, e in ds for d in s})
            ends0 = sorted({d for s, e in ds for d in e})
            key0 = f"{'|'.join(starts0)}->{'|'.join(ends0)}"
            if arm.get("guard"):
                chk.bad("A15.rectilinear", key0 + ":unconditional", rd.where(line=arm.get("line")), f"the corner route for {key0} depends on a further condition (a guarded match arm): for some positions of the end points the connector is routed differently - e.g. collapsed into one slanted segment instead of axis-parallel ones")
            if len(pts) < 3:
                if pts:
                    chk.bad("A15.rectilinear", key0 + ":has-corner", rd.where(line=arm.get("line")), f"the corner route for {key0} has {len(pts)} points: a single segment between two points that are not level is not axis-parallel")
                continue
            n += 1
            lets_arm = dict(lets)
            lets_arm.update(let_table({"body": arm["body"]}))
            canon = [(_canon(x, lets_arm), _canon(y, lets_arm)) for x, y in pts]
            starts = sorted({d for s, e in ds for d in s})
            ends = sorted({d for s, e in ds for d in e})
            key = f"{'|'.join(starts)}->{'|'.join(ends)}"
            where = rd.where(line=arm.get("line"))
            # every segment axis-parallel
            segs = []
            for (a, b) in zip(canon, canon[1:]):
                same_x = a[0] == b[0] and a[0] not in ("?", "expr")
                same_y = a[1] == b[1] and a[1] not in ("?", "expr")
                segs.append("v" if same_x and not same_y else "h" if same_y and not same_x else "0" if same_x and same_y else "x")
            chk.ob("x" not in segs and "0" not in segs, "A15.rectilinear", key + ":axis-parallel", where, f"every segment shares one coordinate with its predecessor ({''.join(segs)})", f"route {canon} has a segment that is not provably axis-parallel ({''.join(segs)})")
            chk.ob(canon[0] == ("start.0", "start.1") and canon[-1] == ("end.0", "end.1"), "A15.rectilinear", key + ":endpoints", where, "the route runs from the start point to the end point", f"route endpoints are {canon[0]} .. {canon[-1]}")
            first_ok = all((segs[0] == "v") == (d in VERT) for d in starts)
            last_ok = all((segs[-1] == "v") == (d in VERT) for d in ends)
            chk.ob(first_ok and last_ok, "A15.rectilinear", key + ":perpendicular", where, f"the first segment leaves perpendicular to the {'/'.join(starts)} edge and the last enters perpendicular to the {'/'.join(ends)} edge", f"segments {''.join(segs)}: the route does not leave/enter perpendicular to the chosen edges (start {starts}, end {ends})")
            # U shapes
            if starts == ends and len(starts) == 1:
                d = starts[0]
                meths = {x["name"] for x in hirq.exprs(arm["body"], "MethodCall") if x["name"] in ("min", "max")}
                ops = {x["op"] for x in hirq.exprs(arm["body"], "Binary") if x["op"] in ("Add", "Sub")}
                comp = {f["name"] for f in hirq.exprs(arm["body"], "Field") if f["name"] in ("0", "1") and hirq.field_chain(f) and "origin" in hirq.field_chain(f)}
                want = ({"min"}, {"Sub"}) if d in ("Left", "Up") else ({"max"}, {"Add"})
                wcomp = {"0"} if d in HORZ else {"1"}
                if len(meths) == 1 and len(ops) == 1 and (meths, ops) != want and (meths, ops) in (({"min"}, {"Sub"}), ({"max"}, {"Add"}), ({"min"}, {"Add"}), ({"max"}, {"Sub"})):
                    # which operands are compared is not readable, but the arm itself takes the min / max and moves
                    # it by + / -: a combination other than the expected one puts the turn on the wrong side
                    chk.bad("A15.rectilinear", key + ":u-side", where, f"U-route for {d}: the turn-around coordinate is {sorted(meths)[0]}(..) {'+' if 'Add' in ops else '-'} offset (expected {sorted(want[0])[0]}(..) {'+' if 'Add' in want[1] else '-'} offset): the route turns back across the shapes instead of beyond the outermost end point")
                    continue
                if not meths or not ops or not comp:
                    # the turn-around coordinate is computed somewhere else (a helper): which side it lies on is not
                    # readable from this arm
                    chk.undecided("A15.rectilinear", key + ":u-side", where, f"the U-turn coordinate of the {d}-{d} route is not computed in the arm itself (min/max: {sorted(meths)}, +/-: {sorted(ops)}, component: {sorted(comp)})")
                    continue
                chk.ob((meths, ops) == want and comp == wcomp, "A15.rectilinear", key + ":u-side", where, f"a {d}-{d} route turns beyond the {'smaller' if d in ('Left', 'Up') else 'larger'} {'x' if d in HORZ else 'y'} of the two endpoints", f"U-route for {d}: uses {sorted(meths)} {sorted(ops)} on components {sorted(comp)} (expected {want}, {wcomp})")
    chk.floor("A15.rectilinear", n, 8, "corner route arm")


def axis_lines(prog, chk):
    rd = prog.body(CON + "Connector::render")
    h = prog.hir[rd.id]
    arms = {}
    for m in hirq.exprs(h["body"], "Match"):
        for a in m["arms"]:
            p = a["pat"]
            if p.get("p") in ("path", "tstruct"):
                arms[p["res"].get("path", "").split("::")[-1]] = a["body"]
    for name, fixed, minv, maxv in (("Horizontal", "y", "Miny", "Maxy"), ("Vertical", "x", "Minx", "Maxx")):
        arm = arms.get(name)
        if arm is None:
            chk.bad("A15.axis-line", name, rd.where(), f"no {name} arm in Connector::render")
            continue
        pairs = {}
        for arr in hirq.exprs(arm, "Array"):
            for it in arr["items"]:
                if it.get("k") == "Tup" and len(it["items"]) == 2:
                    k = hirq.lit_str(it["items"][0])
                    locs = sorted({(p.get("res") or {}).get("local") for p in hirq.exprs(it["items"][1], "Path") if "local" in (p.get("res") or {})})
                    if k:
                        pairs[k] = locs
        ok = pairs.get(fixed + "1") == pairs.get(fixed + "2") == ["midpoint"] and pairs.get(("x" if fixed == "y" else "y") + "1") != pairs.get(("x" if fixed == "y" else "y") + "2")
        if not all(k_ in pairs for k_ in ("x1", "y1", "x2", "y2")):
            # the <line> is not built from a literal list of (attribute, value) pairs in this arm (a helper builds it):
            # the coordinates are decided by the evaluated site connector-axis (A17)
            chk.undecided("A15.axis-line", name + ":parallel", rd.where(), f"the {name.lower()} connector's coordinates are not written as literal (attribute, value) pairs in the arm ({sorted(pairs)}); decided by the A17 site connector-axis")
            ok = None
        if ok is not None:
          chk.ob(ok, "A15.axis-line", name + ":parallel", rd.where(), f"a {name.lower()} connector has {fixed}1 = {fixed}2 = the overlap midpoint", f"{name} connector coordinates are {pairs}")
        # overlap: max of the mins, min of the maxes
        got = {}
        for mc in hirq.exprs(arm, "MethodCall"):
            if mc["name"] in ("max", "min"):
                vs = sorted({(p.get("res") or {}).get("path", "").split("::")[-1] for p in hirq.exprs(mc, "Path") if "ScalarSpec::" in (p.get("res") or {}).get("path", "")})
                got[mc["name"]] = vs
        if not got.get("max") or not got.get("min"):
            # the max / min are not taken over `scalarspec(ScalarSpec::..)` values in the arm itself (a helper gets the
            # extents handed in): the evaluated site connector-axis (A17) decides the coordinate
            chk.undecided("A15.axis-line", name + ":overlap", rd.where(), f"the overlap of the two elements is not computed over ScalarSpec values in the {name} arm itself ({got}); decided by the site connector-axis where it can be evaluated")
            continue
        chk.ob(got == {"max": [minv], "min": [maxv]}, "A15.axis-line", name + ":overlap", rd.where(), f"{name.lower()}: overlap = [max of the two {minv}, min of the two {maxv}], line through its middle", f"{name} overlap wiring is {got} (expected max over {minv}, min over {maxv})")
        # sibling agreement: both resolve endpoint boxes through the element map
        viamap = [mc for mc in hirq.exprs(arm, "MethodCall") if mc["name"] == "get_element_bbox"]
        direct = [mc for mc in hirq.exprs(arm, "MethodCall") if mc["name"] == "bbox"]
        # (the boxes may be fetched through a helper: what must not happen is one edge type reading el.bbox() directly)
        mir_direct = rd.call_sites(R.path_endswith("SvgElement::bbox"))
        chk.ob(not direct and not mir_direct, "A16.sibling-bbox", name, rd.where(), f"{name.lower()} connectors take both endpoint boxes from the element map (works for use/reuse targets and clipped elements)", f"{name} connector takes endpoint boxes via {[m['name'] for m in viamap + direct]}: its sibling uses the element map, so the same endpoints work for one edge-type and fail for the other")


def wiring(prog, chk):
    ld = prog.body(CON + "Connector::loc_to_dir")
    h = prog.hir[ld.id]
    got = {}
    for m in hirq.exprs(h["body"], "Match"):
        for a in m["arms"]:
            vs = []
            for q in hirq.walk(a["pat"]):
                if q.get("p") in ("path", "tstruct") and "LocSpec" in q["res"].get("path", ""):
                    vs.append(q["res"]["path"].split("::")[-1])
            d = None
            for p in hirq.exprs(a["body"], "Path"):
                r = (p.get("res") or {}).get("path", "")
                if "Direction::" in r:
                    d = r.split("::")[-1]
            for v in vs:
                got[v] = d
    chk.ob(got == LOC_DIR_REF, "A15.loc-to-dir", "loc_to_dir", ld.where(), "an edge location fixes the leaving direction (top -> up, right -> right, bottom -> down, left -> left)", f"loc_to_dir maps {got}")
    ct = prog.body("<svgdx::connector::ConnectionType as std::str::FromStr>::from_str") if prog.maybe_body("<svgdx::connector::ConnectionType as std::str::FromStr>::from_str") else None
    if ct is None:
        fs = prog.maybe_body(CON + "ConnectionType::from_str")
        ct = fs
    if ct is None:
        chk.anchor_missing("A15.edge-type-words", "ConnectionType::from_str not found")
        return
    from props.C09 import str_to_variant
    tbl = str_to_variant(prog.hir[ct.id])
    want = {"h": "Horizontal", "horizontal": "Horizontal", "v": "Vertical", "vertical": "Vertical", "corner": "Corner", "straight": "Straight"}
    ok = all(tbl.get(k) == v for k, v in want.items() if k in tbl) and {"h", "v"} <= set(tbl)
    chk.ob(ok, "A15.edge-type-words", "ConnectionType::from_str", ct.where(), f"edge-type words select the like-named connection type ({tbl})", f"edge-type words map to {tbl}")


def all_candidates_measured(prog, chk):
    """minimal distance over *all* candidate locations: in shortest_link / closest_loc every pass of the candidate loops
    measures its candidate (no pass returns to the loop head without the locspec() lookups and the comparison)"""
    n = 0
    for fn in ("svgdx::connector::shortest_link", "svgdx::connector::closest_loc"):
        b = prog.body(fn)
        chk.touch(b)
        locs = {bb for (bb, t, c) in b.call_sites(R.path_endswith("BoundingBox::locspec"))}
        if not locs:
            chk.anchor_missing("A13.all-candidates", f"{fn}: no locspec() lookup found")
            continue
        lp = R.loop_containing(b, next(iter(locs)))
        if lp is None:
            chk.anchor_missing("A13.all-candidates", f"{fn}: the candidate lookups are not inside a loop")
            continue
        h, blocks = lp
        # the `Some(candidate)` edge of the innermost loop's iterator
        nxt = [(bb, t) for (bb, t, c) in b.call_sites(lambda c: c.decl_path == "std::iter::Iterator::next") if bb in blocks]
        starts = []
        for (bb, t) in nxt:
            sw = R.find_switch_on_discr(b, t["t"], t["dest"][0])
            if sw and R.loop_containing(b, bb) == lp:
                starts += [tgt for v, tgt in sw[1]["vals"] if v == 1]
        if not starts:
            chk.anchor_missing("A13.all-candidates", f"{fn}: iterator of the candidate loop not found")
            continue
        n += 1
        # comparison: the `dist < min` test must also be on every pass
        cmps = {bb for bb in blocks for st in b.stmts(bb) if "rv" in st and st["rv"].get("k") == "binop" and st["rv"].get("op") in ("Lt", "Le", "Gt", "Ge") and st["rv"].get("aty") == "f32"}
        skip_lookup = h in b.reach(starts, avoid=locs)
        skip_cmp = bool(cmps) and h in b.reach(starts, avoid=cmps)
        chk.ob(not skip_lookup and not skip_cmp and bool(cmps), "A13.all-candidates", fn.split("::")[-1], b.where(h), f"{fn.split('::')[-1]}: every candidate (pair) is looked up and compared with the running minimum", f"{fn.split('::')[-1]}: a pass of the candidate loop can return to the loop head without measuring its candidate: some location (pair) is never considered, so the chosen connection is not the one of minimal distance")
    chk.floor("A13.all-candidates", n, 2, "candidate loop in the connector location search")
