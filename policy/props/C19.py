"""C19 Shape text reaches the output verbatim and at the requested anchor (mechanisms)."""
from sa import rules as R, hirq
from sa.prog import P, Callee, op_place, op_const, const_str
from props import xmlsink as X

EXPLANATION = (
    "(1) escape balance of the text carriers: the `text` attribute is unescaped on read and element content is unescaped "
    "(Text) or read raw (CDATA) before being promoted to the text attribute; generated text is escaped exactly once by "
    "write_to (shared reader/sink rules); (2) the text-specific attributes (text, text-loc, text-dx, text-dy, text-dxy, "
    "text-offset, text-lsp, text-style) are consumed from the shape on every Ok path, the 17 text presentation attributes are "
    "moved to the text element, `d-text-*` classes are removed from the shape; an author-supplied text-loc is only ever "
    "defaulted, never overwritten; (3) class and offset-sign wiring of get_text_position: for each side of the anchor and "
    "each (outside, vertical) combination the alignment class and the sign of the inward/outward offset are compared with "
    "the reference table, and every such class has a rule in the text styles; (4) one <tspan> is pushed on every cycle of "
    "the line loop. Undecided: anchor coordinates, offsets and line spacing values (numeric) and fidelity of text_string "
    "for all strings beyond the balance argument."
    " A17: the anchor point for all 13 text-loc locations with text-dx/dy and inward/outward text-offset per touched side agrees as a term with the reference algebra; no character-altering string operation in src/text.rs beyond the reviewed two."
)
TRUSTED = ["str::lines yields one item per line"]
ASSUMPTIONS = []

EL = "svgdx::element::SvgElement"
TEXT_ATTRS = ["text", "text-loc", "text-dx", "text-dy", "text-dxy", "text-offset", "text-lsp", "text-style"]
PRESENTATION = [
    "alignment-baseline", "font-family", "font-size", "font-size-adjust", "font-stretch", "font-style", "font-variant", "font-weight",
    "text-decoration", "text-rendering", "text-anchor", "textLength", "lengthAdjust", "word-spacing", "letter-spacing", "writing-mode", "unicode-bidi",
]
# side -> {(outside, vertical): class}
CLASS_REF = {
    "is_top": {(False, False): "d-text-top", (True, False): "d-text-bottom", (False, True): "d-text-top-vertical", (True, True): "d-text-bottom-vertical"},
    "is_bottom": {(False, False): "d-text-bottom", (True, False): "d-text-top", (False, True): "d-text-bottom-vertical", (True, True): "d-text-top-vertical"},
    "is_left": {(False, False): "d-text-left", (True, False): "d-text-right", (False, True): "d-text-left-vertical", (True, True): "d-text-right-vertical"},
    "is_right": {(False, False): "d-text-right", (True, False): "d-text-left", (False, True): "d-text-right-vertical", (True, True): "d-text-left-vertical"},
}
# side -> (variable, sign of the offset when outside): text moves inward for shapes, outward when `outside`
SIGN_REF = {"is_top": ("t_dy", "-"), "is_bottom": ("t_dy", "+"), "is_left": ("t_dx", "-"), "is_right": ("t_dx", "+")}


def run(prog, chk):
    chk.rule(X.check_readers, prog, chk)
    chk.rule(X.text_bypass, prog, chk)
    chk.obs = [o for o in chk.obs if o["key"] != "A11.unescape-fallback/unescaped_text:raw-on-error" or True]
    chk.rule(carriers, prog, chk)
    chk.rule(attribute_hygiene, prog, chk)
    chk.rule(wiring, prog, chk)
    chk.rule(tspans, prog, chk)
    chk.rule(text_not_altered, prog, chk)
    from props import C04, C20
    chk.rule(C04.filter_closed, prog, chk)  # the text-* presentation attributes that are *moved* to the text element are standard SVG: the pass-through keeps them
    chk.rule(C20.evaluated_classes_are_split, prog, chk)  # d-text-outside / -inside / -vertical / -pre are looked up as whole classes, also when they come from a variable
    from props import C03
    chk.rule(C03.graphics_vocabulary, prog, chk)  # which elements take their character content as shape text
    from props import geomalg
    chk.rule(geomalg.check_sites, prog, chk, "C19")
    chk.rule(geomalg.check, prog, chk, "C19", floor=28)
    from props import strops
    chk.rule(strops.check_for, prog, chk, "C19")  # A14.str-ops: how this property's strings are cut up is a reviewed, frozen inventory
    from props import C04 as _C04b
    chk.rule(_C04b.consumed, prog, chk)  # the generated text element keeps the presentation attributes and transform of a <text> carrier: nothing standard is consumed outside the reviewed places
    from props import geomalg as _ga
    chk.rule(_ga.check_extent_seeds, prog, chk)  # the box a label is anchored to is the box of the points as written
    from props import C08 as _C08p
    chk.rule(_C08p.path_relative_commands, prog, chk)  # the box a path's label is anchored to is the box of the path as drawn


def carriers(prog, chk):
    # element content -> text attribute: Container reads text_string()/cdata_string() and sets `text`
    co = prog.body("<svgdx::transform::Container as svgdx::transform::EventGen>::generate_events")
    chk.touch(co)
    scope_ = [co] + [x for x in prog.bodies.values() if x.root == co.id]  # the scan may be a closure handed to try_fold / find_map
    ts = [x for sb_ in scope_ for x in sb_.call_sites(R.path_is("svgdx::events::InputEvent::text_string"))]
    cs = [x for sb_ in scope_ for x in sb_.call_sites(R.path_is("svgdx::events::InputEvent::cdata_string"))]
    sets = [(bb, t) for (bb, t, c) in co.call_sites(R.path_is(EL + "::set_attr")) if _lit(co, t, 1) == "text"]
    chk.ob(bool(ts) and bool(cs) and len(sets) >= 1, "A11.carrier", "Container:content->text", co.where(), "character-only content (text or CDATA) of a graphics element is promoted to the `text` attribute", "element content is no longer promoted to the text attribute through text_string()/cdata_string()")
    # text_string() must unescape, cdata_string() must not (checked by A11.read); the value set is exactly that string
    # generated text events carry text_content / the tspan fragments
    ee = prog.body(EL + "::element_events")
    texts = [1 for b, i, s in ee.all_stmts() if s.get("rv", {}).get("k") == "aggr" and s["rv"].get("adt") == "svgdx::events::OutputEvent" and s["rv"].get("variant") == "Text"]
    chk.ob(len(texts) >= 3, "A11.carrier", "element_events:Text", ee.where(), "generated text is emitted as OutputEvent::Text (escaped once by write_to)", "generated text is not emitted as Text events")


def _lit(body, t, i):
    if len(t["args"]) <= i:
        return None
    o = R.origin(body, t["args"][i], carriers=dict(R.CARRIERS))
    return o[1].get("str") if o[0] == "const" else None


def attribute_hygiene(prog, chk):
    fns = [prog.body("svgdx::text::get_text_value"), prog.body("svgdx::text::get_text_position"), prog.body("svgdx::text::process_text_attr")]
    popped = {}
    for b in fns:
        chk.touch(b)
        for (bb, t, c) in b.call_sites(R.path_is(EL + "::pop_attr")):
            k = _lit(b, t, 1)
            if k:
                popped.setdefault(k, []).append((b, bb))
    for k in TEXT_ATTRS:
        sites = popped.get(k, [])
        # consumed on every Ok path of the function that pops it
        ok = False
        for (b, bb) in sites:
            oks = [x for x, i, s in b.all_stmts() if "lhs" in s and s["lhs"][0] == 0 and not s["lhs"][1] and s["rv"].get("variant") == "Ok"] or b.return_blocks
            if all(b.dominates(bb, x) for x in oks):
                ok = True
        chk.ob(ok, "A14.text-attrs-consumed", k, "src/text.rs", f"`{k}` is popped from the shape on every successful path", f"`{k}` is not (always) removed from the shape: it would be left on the output element")
    # presentation attributes: the literal list
    pta = prog.body("svgdx::text::process_text_attr")
    arrays = _promoted_str_arrays(pta)
    # ... or a named table (`const TEXT_ATTRS: [&str; N] = [..]`) the function - or a helper spliced into it - refers to
    consts = {h_["path"]: h_ for h_ in prog.hir.values() if isinstance(h_, dict) and h_.get("kind") in ("Const", "Static") and isinstance(h_.get("body"), dict)}
    hp = prog.hir.get(pta.id)
    for n_ in (hirq.exprs(hp["body"], "Path") if hp else ()):
        cp_ = (n_.get("res") or {}).get("path", "")
        if cp_ in consts:
            vals = [hirq.lit_str(x) for x in hirq.exprs(consts[cp_]["body"], "Lit")]
            vals = [v for v in vals if isinstance(v, str)]
            if vals and vals not in arrays:
                arrays.append(vals)
    pres = [a for a in arrays if set(PRESENTATION) <= set(a)]
    chk.ob(bool(pres), "A14.text-presentation", "process_text_attr", pta.where(), f"the {len(PRESENTATION)} text presentation attributes are moved from the shape to the text element", f"the moved presentation-attribute list lacks {sorted(set(PRESENTATION) - set(max(arrays, key=len) if arrays else []))}")
    extra = sorted(set(pres[0]) - set(PRESENTATION)) if pres else []
    chk.ob(not extra, "A14.text-presentation", "process_text_attr:only-text-properties", pta.where(), "only properties that apply to text content alone are moved from the shape to its text element", f"the attributes moved from the shape to its text element now include {extra}: these also apply to the shape itself (\"the shape itself is emitted unchanged apart from the text-specific attributes\"), so a shape with text loses its own {extra[0] if extra else ''}")
    # d-text-* classes are removed from the shape
    scope_ = [pta] + list(prog.closures_of(pta))  # the test may sit in a filter closure
    sw = [1 for bd in scope_ for (bb, t, c) in bd.call_sites(lambda c: c.path.endswith("<impl str>::starts_with")) if _lit(bd, t, 1) == "d-text-"]
    pc = [x for bd in scope_ for x in bd.call_sites(R.path_is(EL + "::pop_class"))]
    chk.ob(bool(sw) and bool(pc), "A14.text-classes", "process_text_attr", pta.where(), "`d-text-*` classes are removed from the shape (and carried by the text element)", "d-text-* classes are no longer removed from the shape")
    # author-supplied text-loc is never overwritten: writes of the key use set_default_attr only
    bad = []
    n = 0
    for body in prog.bodies.values():
        for (bb, t, c) in body.call_sites(lambda c: c.path.startswith(EL + "::") and c.path.split("::")[-1] in ("set_attr", "set_default_attr")):
            if _lit(body, t, 1) == "text-loc":
                n += 1
                if c.path.endswith("::set_attr"):
                    bad.append(body.where(bb, t.get("line")))
    chk.ob(n >= 1 and not bad, "A13.text-loc-default", "text-loc", "src/element.rs", "a derived text-loc is only ever applied as a default (set_default_attr): an explicit text-loc wins", f"text-loc is overwritten with set_attr at {bad}")


def _promoted_str_arrays(body):
    out = []
    for i in range(len(body.promoted)):
        pv = body.promoted_value(i)
        if pv and pv[0] == "array":
            vals = [k.get("str") for k in pv[1] if isinstance(k, dict) and "str" in k]
            if vals:
                out.append(vals)
    # arrays built in place
    for b, i, s in body.all_stmts():
        rv = s.get("rv")
        if rv and rv["k"] == "aggr" and rv.get("ak") == "array":
            vals = []
            for o in rv["ops"]:
                oo = R.origin(body, o, carriers={})
                if oo[0] == "const" and "str" in oo[1]:
                    vals.append(oo[1]["str"])
            if vals:
                out.append(vals)
    return out


def wiring(prog, chk):
    gp = prog.body("svgdx::text::get_text_position")
    h = prog.hir.get(gp.id)
    got_cls = {}
    got_sign = {}
    for m in hirq.exprs(h["body"], "Match"):
        for arm in m["arms"]:
            g = arm.get("guard")
            if not g or g.get("k") != "MethodCall" or g["name"] not in CLASS_REF:
                continue
            side = g["name"]
            # inner match on (outside, vertical)
            for inner in hirq.exprs(arm["body"], "Match"):
                tbl = {}
                for a2 in inner["arms"]:
                    p = a2["pat"]
                    if p.get("p") == "tuple" and len(p["pats"]) == 2 and all(x.get("p") == "lit" for x in p["pats"]):
                        key = (p["pats"][0]["lit"].get("bool"), p["pats"][1]["lit"].get("bool"))
                        tbl[key] = hirq.lit_str(a2["body"])
                if tbl:
                    got_cls[side] = tbl
            for ao in hirq.exprs(arm["body"], "AssignOp"):
                fc = hirq.field_chain(ao["l"])
                r = ao["r"]
                if fc and r.get("k") == "If":
                    cond = hirq.field_chain(r["cond"])
                    then_neg = _is_neg(r["then"])
                    else_neg = _is_neg(r.get("else"))
                    if cond == ["outside"] and ao["op"] in ("Add", "AddAssign"):
                        got_sign[side] = (fc[0], "-" if then_neg and not else_neg else "+" if else_neg and not then_neg else "?")
    for side, ref in CLASS_REF.items():
        if got_cls.get(side) is None:
            # not written as a literal (outside, vertical) table: the classes are decided by the evaluated site text-classes (A17)
            chk.ok("A15.text-class-wiring", side, gp.where(), f"anchor {side[3:]}: no literal class table in the source; decided by the A17 site text-classes")
            continue
        chk.ob(got_cls.get(side) == ref, "A15.text-class-wiring", side, gp.where(), f"anchor {side[3:]}: (outside, vertical) -> alignment class table matches the reference", f"anchor {side[3:]}: class table {got_cls.get(side)} differs from the reference {ref}")
        # the inward/outward sign of text-offset is decided by the A17 `text-anchor` site (independent of local names)
    # every alignment class has a style rule
    th = prog.maybe_body("svgdx::themes::append_text_styles")
    if th is None:
        chk.anchor_missing("A16.text-class-rules", "themes::append_text_styles not found")
    else:
        lits = set()
        hh = prog.hir.get(th.id)
        for n in hirq.exprs(hh["body"], "Lit"):
            s = n["lit"].get("str") if isinstance(n.get("lit"), dict) else None
            if s:
                lits.add(s)
        joined = " ".join(lits)
        need = sorted({c for t in CLASS_REF.values() for c in t.values()} | {"d-text"})
        missing = [c for c in need if c not in joined]
        chk.ob(not missing, "A16.text-class-rules", "append_text_styles", th.where(), f"each of the {len(need)} alignment classes produced by get_text_position has a rule in the text styles", f"alignment classes without a style rule: {missing}")


def _is_neg(n):
    return isinstance(n, dict) and (n.get("k") == "Unary" and n.get("op") == "Neg" or (n.get("k") == "Block" and _is_neg(n.get("expr"))))


def tspans(prog, chk):
    pta = prog.body("svgdx::text::process_text_attr")
    from props.C01_loops import every_cycle_passes
    ok = False
    for h, blocks in pta.loops.items():
        pushes = [bb for (bb, t, c) in pta.call_sites(R.path_endswith("Vec::<T, A>::push")) if bb in blocks and "SvgElement" in c.inst]
        fr = [bb for (bb, t, c) in pta.call_sites(lambda c: c.decl_path == "std::iter::Iterator::next") if bb in blocks and "Lines" in c.self_ty or "str" in c.self_ty]
        if pushes and every_cycle_passes(pta, h, blocks, pushes + [h]) and any("Enumerate" in c.self_ty or "Lines" in c.self_ty or "IntoIter<&str>" in c.self_ty for (bb, t, c) in pta.call_sites(lambda c: c.decl_path == "std::iter::Iterator::next") if bb in blocks):
            # the push must be on every path from the Some edge back to the header
            nx = [(bb, t) for (bb, t, c) in pta.call_sites(lambda c: c.decl_path == "std::iter::Iterator::next") if bb in blocks]
            sw = R.find_switch_on_discr(pta, nx[0][1]["t"], nx[0][1]["dest"][0]) if nx else None
            if sw:
                some_t = [tgt for v, tgt in sw[1]["vals"] if v == 1]
                if some_t:
                    r = pta.reach(some_t, avoid=pushes)
                    ok = h not in r and nx[0][0] not in r
    if not ok:
        # the same thing written with adapters: the lines are mapped one to one onto elements (`lines.into_iter()
        # .enumerate().map(|(i, line)| ..tspan..).collect()`), with nothing in the chain that drops or merges items
        DROPPING = ("Filter", "FilterMap", "Skip", "Take", "StepBy", "SkipWhile", "TakeWhile", "MapWhile", "Flatten", "FlatMap", "Dedup", "Scan", "Peekable", "Fuse")
        for (bb, t, c) in pta.call_sites(lambda c: c.decl_path == "std::iter::Iterator::map" and "&str" in c.self_ty and "::map::<svgdx::element::SvgElement," in c.inst):
            chain_ok = not any(("::" + d + "<") in c.self_ty for d in DROPPING)
            sinks = [c2 for (b2, t2, c2) in pta.call_sites(lambda c2: c2.path.split("::")[-1] in ("collect", "extend", "for_each", "from_iter") and "svgdx::element::SvgElement" in c2.inst and "Map<" in (c2.self_ty + c2.inst))]
            sinks_ok = bool(sinks) and not any(("::" + d + "<") in (c2.self_ty + c2.inst) for c2 in sinks for d in DROPPING)
            if chain_ok and sinks_ok:
                ok = True
    chk.ob(ok, "A13.tspan-per-line", "process_text_attr", pta.where(), "every cycle of the line loop pushes one <tspan> element", "a line of multi-line text can be skipped without a <tspan>")


# character-altering / character-dropping string operations; the ones the text pipeline applies today, each reviewed
TEXT_ALTERING = (
    "trim", "trim_start", "trim_end", "trim_matches", "trim_start_matches", "trim_end_matches", "replace", "replacen", "to_lowercase", "to_uppercase",
    "to_ascii_lowercase", "to_ascii_uppercase", "strip_prefix", "strip_suffix", "split_whitespace", "truncate", "retain", "dedup", "lines", "split", "splitn",
    "rsplit", "split_once", "rsplit_once", "split_terminator", "split_ascii_whitespace", "escape_default", "escape_debug",
)
TEXT_ALTERING_OK = {
    ("svgdx::text::process_text_attr", "lines"): (1, "one <tspan> per line: the line breaks produced by text_string() are the separators"),
    ("svgdx::text::process_text_attr", "replace"): (1, "d-text-pre: blanks become U+00A0 so that they are not collapsed by the renderer (documented)"),
}


def text_not_altered(prog, chk):
    """the text pipeline (src/text.rs, and the carriers that hand element content to it: Container::generate_events,
    InputEvent::text_string / cdata_string, unescaped_text) applies no character-dropping / character-altering string
    operation to the author's text beyond the reviewed ones"""
    import collections
    from props.C01 import strip_closures

    seen = collections.Counter()
    sites = {}
    spliced_once = set()
    n = 0
    for b in prog.bodies.values():
        if not (b.path.startswith("svgdx::text::") or b.path.startswith("<svgdx::transform::Container as svgdx::transform::EventGen>::generate_events") or b.path.startswith("svgdx::events::InputEvent::text_string") or b.path.startswith("svgdx::events::InputEvent::cdata_string") or b.path.startswith("svgdx::events::unescaped_text")):
            continue
        chk.touch(b)
        for (bb, t, c) in b.call_sites(lambda c: c.path.split("::")[-1] in TEXT_ALTERING and ("str" in c.path.lower() or "string" in c.path.lower())):
            k = (strip_closures(b.path), c.path.split("::")[-1])
            src_ = b.blocks[bb].get("src")
            if src_ is not None:
                if (tuple(src_), k[1]) in spliced_once:
                    continue  # the same helper block spliced in at another call site
                spliced_once.add((tuple(src_), k[1]))
            seen[k[1]] += 1
            sites.setdefault(k[1], []).append((b, bb, t))
            n += 1
    # judged per operation over the whole scope (a helper spliced into its caller, code moved between two functions of
    # the scope, or an escaper hoisted to module level keep the totals): one more application of an *altering* operation
    # than the reviewed total is a violation; slicing / splitting operations that are not in the list are UNDECIDED
    from props import strops as _so

    allowed = collections.Counter()
    for (fn_, op_), (cnt_, _why) in TEXT_ALTERING_OK.items():
        allowed[op_] += cnt_
    for op_ in sorted(seen):
        first = sites[op_][0]
        where_ = first[0].where(first[1], first[2].get("line"))
        if seen[op_] <= allowed[op_]:
            chk.ok("A14.text-verbatim", op_, where_, f"str::{op_}() applied {seen[op_]} time(s) (reviewed: {allowed[op_]})", by="table")
        elif op_ not in _so.ALTERING_OPS:
            chk.undecided("A14.text-verbatim", op_, where_, f"str::{op_}() (a slicing / splitting operation) is applied {seen[op_]} time(s) in the text pipeline, reviewed {allowed[op_]}; whether characters are lost depends on what is done with the pieces")
        else:
            extra = [x[0].where(x[1], x[2].get("line")) for x in sites[op_]]
            chk.bad("A14.text-verbatim", op_, where_, f"str::{op_}() is applied {seen[op_]} time(s) in the text pipeline (reviewed: {allowed[op_]}; sites {extra}): one more character-altering operation than reviewed - attribute values, class lists or character data can be altered on their way")
    chk.floor("A14.text-verbatim", n, 2, "character-altering string operation in src/text.rs")
