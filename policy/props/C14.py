"""C14 Expressions evaluate with conventional arithmetic semantics, exactly once (skeleton and wiring)."""
import json
import os
import re

from sa import rules as R, hirq
from sa.prog import P, Callee, op_place, op_const, const_str, const_int

EXPLANATION = (
    "Typed-HIR dispatch summaries and MIR path rules: (1) grammar skeleton - the precedence chain expr -> logical -> comparison -> "
    "term -> factor -> primary exists as call edges, each binary level parses its right operand with the next-tighter level inside a "
    "loop (left associativity), unary minus and parentheses live in primary; (2) operator wiring - each operator token / word selects "
    "the IEEE primitive of the reference table (+ - * / and f32::rem_euclid for %; == != > >= < <= yielding 0/1; and/or/xor on "
    "non-zero-ness), operands in source order; (3) function wiring - every built-in name maps to the variant whose arm uses the "
    "argument accessor and the primitive set frozen in policy/spec/functions.json (e.g. sin = to_radians then f32::sin), and every "
    "documented function exists; (4) malformed input fails - every Ok exit of evaluate_inner/lookup passes the end-of-tokens test, "
    "parentheses and calls require their closing token, unknown functions propagate the parse error, number_pair/number_triple accept "
    "exactly 2/3 values; (5) random draws happen only in the random()/randint() arms and loop parameters are evaluated once. "
    "Undecided: numeric results, list flattening semantics, and 'evaluated exactly once' for attribute values that are re-evaluated "
    "with fixed-point results."
    " A17: 36 closed-form built-ins agree as terms with the reference algebra written from the documentation; every {{..}} block found is evaluated in that pass of the scan."
)
TRUSTED = ["IEEE-754 semantics of the f32 primitives named in the reference table"]
ASSUMPTIONS = []

SPEC = os.path.join(os.path.dirname(os.path.dirname(os.path.abspath(__file__))), "spec", "functions.json")
EXPR = "svgdx::expression::"
BOILER = {
    "branch", "from_residual", "into", "from", "clone", "to_owned", "as_slice", "into_iter", "ok_or_else", "deref", "to_string", "iter", "map", "collect",
    "as_str", "as_ref", "borrow", "borrow_mut", "unwrap_or", "is_empty", "len", "new", "to_vec", "cloned", "copied", "ok_or", "format", "must_use",
}

TERM_REF = {"Add": ("AddAssign", "factor"), "Sub": ("SubAssign", "factor")}
FACTOR_REF = {"Mul": ("MulAssign", "primary"), "Div": ("DivAssign", "primary"), "Mod": ("rem_euclid", "primary")}
CMP_REF = {"Eq": "Eq", "Ne": "Ne", "Gt": "Gt", "Ge": "Ge", "Lt": "Lt", "Le": "Le"}
LOGIC_REF = {"And": "And", "Or": "Or", "Xor": "Ne"}
CMP_WORDS = {"eq": "Eq", "ne": "Ne", "gt": "Gt", "ge": "Ge", "lt": "Lt", "le": "Le"}
LOGIC_WORDS = {"and": "And", "or": "Or", "xor": "Xor"}


def every_attribute_evaluated(prog, chk):
    """SvgElement::eval_attributes evaluates every attribute except the raw comment `__`: the attribute names it
    singles out (compares a key with) are exactly that one.  An attribute skipped here keeps its `{{..}}` / `$var`
    text wherever it is not evaluated by some other route (the `_` comment of a <g>, an id, a class ...)."""
    b = prog.body("svgdx::element::SvgElement::eval_attributes")
    chk.touch(b)
    lits = set()
    for cb in [b] + [x for x in prog.bodies.values() if x.root == b.id]:
        for (bb, t, c) in cb.call_sites(lambda c: c.decl_path in ("std::cmp::PartialEq::eq", "std::cmp::PartialEq::ne") or c.path.split("::")[-1] in ("starts_with", "ends_with", "contains")):
            for a in t["args"]:
                o = R.origin(cb, a, carriers=dict(R.CARRIERS))
                if o[0] == "const" and "str" in o[1]:
                    lits.add(o[1]["str"])
                elif o[0] == "const" and "array" in o[1]:
                    lits |= {k["str"] for k in o[1]["array"] if isinstance(k, dict) and "str" in k}
    evals = b.call_sites(lambda c: c.path == "svgdx::expression::eval_attr")
    chk.floor("A13.every-attribute-evaluated", len(evals), 1, "eval_attr call in eval_attributes")
    chk.ob(lits <= {"__"}, "A13.every-attribute-evaluated", "eval_attributes:skip-set", b.where(), "eval_attributes singles out no attribute name other than the raw comment `__`", f"eval_attributes treats the attribute names {sorted(lits - {'__'})} specially: they are no longer evaluated here, so their {{{{..}}}} / $var text survives wherever no other route evaluates it")


def run(prog, chk):
    chk.rule(skeleton, prog, chk)
    chk.rule(operators, prog, chk)
    chk.rule(functions, prog, chk)
    chk.rule(malformed, prog, chk)
    chk.rule(once_and_rng, prog, chk)
    chk.rule(single_precision_only, prog, chk)
    chk.rule(one_evaluation_per_element, prog, chk)
    chk.rule(every_attribute_evaluated, prog, chk)
    chk.rule(nesting_counter_balanced, prog, chk)
    chk.rule(list_grammar, prog, chk)
    from props import C15
    chk.rule(C15.reuse_overrides_evaluated, prog, chk)  # the overrides a <reuse> hands to its target are the evaluated ones (not evaluated again)
    from props import geomalg
    n = geomalg.check_sites(prog, chk, "C14")
    chk.floor("A17.site-algebra", n, 36, "built-in function compared with the reference algebra")
    from props import strops
    chk.rule(strops.check_for, prog, chk, "C14")
    chk.rule(strops.check_evaluation_sites, prog, chk)  # "exactly once": the places that evaluate a string are the reviewed ones  # A14.str-ops: how this property's strings are cut up is a reviewed, frozen inventory
    chk.rule(value_equality_is_structural, prog, chk)


def nesting_counter_balanced(prog, chk):
    """the nesting budget of an expression is a matter of *nesting*: primary() counts itself in on entry and out on
    every exit that yields a value (the only exit that keeps the count is the one that reports the nesting error) - a
    leaked count per literal turns the nesting limit into a limit on the length of an expression"""
    b = prog.body(EXPR + "primary")
    chk.touch(b)
    incs, decs = set(), set()
    for x, i, st in b.all_stmts():
        rv = st.get("rv") or {}
        if rv.get("k") != "binop" or rv.get("op") not in ("AddWithOverflow", "Add", "SubWithOverflow", "Sub"):
            continue
        o = R.origin(b, rv["a"], carriers={})
        if o[0] == "field" and str(o[1][1][-1]) == ".depth" and (op_const(rv.get("b")) or {}).get("int") == 1:
            (incs if rv["op"].startswith("Add") else decs).add(x)
    if not incs or not decs:
        chk.anchor_missing("A5.expr-depth", f"primary(): depth increment ({len(incs)}) / decrement ({len(decs)}) not found")
        return
    errs = {x for x, i, st in b.all_stmts() if (st.get("rv") or {}).get("k") == "aggr" and st["rv"].get("adt") == "svgdx::errors::SvgdxError"}
    rets = [x for x in b.reachable if b.term(x)["k"] == "ret"]
    leak = [x for x in rets if x in b.reach(sorted(incs), avoid=decs | errs)]
    chk.ob(not leak, "A5.expr-depth", "primary", b.where(sorted(incs)[0]), "every exit of primary() that yields a value has given its nesting level back", "primary() can return a value without decrementing the nesting depth it incremented on entry: every such primary permanently uses up one of the 100 nesting levels, so a long flat expression (a sum of 120 numbers, a 110-item list) is rejected as too deeply nested")


def list_grammar(prog, chk):
    """an expression list is `expr (, expr)*`: after every comma another expression is parsed (so `abs(5,)` fails in
    expr()), and the only list without an expression is the empty argument list `()`.  expr_list() is executed in the
    A17 evaluator over scripted token streams; the number of expr() calls it makes is compared with commas + 1."""
    from sa import algebra as A

    def run(prev, toks):
        vals = [("some", ("variant", t)) for t in toks] + [("none",)]
        script = {"peek": {"tick": "advance", "values": vals}, "prev": {"tick": None, "values": [("some", ("variant", prev)) if prev else ("none",)]}}
        ev = A.Evaluator(prog, script=script, numbered=("expr",), unroll=8, transparent=("flatten", "into", "one_number", "cloned"))
        try:
            ev.summary(EXPR + "expr_list")
        except Exception as e:  # noqa: BLE001
            return None, repr(e)
        return ev.counters.get("expr", 0), ""

    f = _fn(prog, "expr_list")
    chk.touch(f)
    cases = [
        ("OpenParen", ["CloseParen"], 0, "`()` is the empty list"),
        ("Number", ["CloseParen"], 1, "a single expression"),
        ("Number", ["Comma", "CloseParen"], 2, "after a comma an expression is parsed even if `)` follows (a trailing comma is an error raised by expr())"),
        ("Number", ["Comma", "Comma", "CloseParen"], 3, "three items"),
        ("OpenParen", ["Comma", "CloseParen"], 2, "`(x,)` (the stream lists what expr_list itself sees between expressions): the item after the comma is parsed"),
        ("Comma", [], 1, "end of input after one expression"),
    ]
    for prev, toks, want, what in cases:
        got, why = run(prev, toks)
        chk.ob(got == want, "A17.list-grammar", f"expr_list:{prev}|{'-'.join(toks) or 'end'}", f.where(), f"after `{prev}` with next tokens {toks or ['<end>']}: expr() is called {want} time(s) ({what})", f"expr_list() after `{prev}` with next tokens {toks or ['<end>']} calls expr() {got} time(s) {why}- expected {want} ({what}): malformed lists such as `abs(5,)` or `(1,2,)` are accepted")
    chk.floor("A17.list-grammar", len(cases), 6, "token stream for expr_list")


def one_evaluation_per_element(prog, chk):
    """the attributes of an element are evaluated once per processing: no function calls eval_attributes on two copies
    of the same source element (a second evaluation draws random numbers again and re-expands variables)"""
    n = 0
    for b in prog.bodies.values():
        if b.unit != "svgdx-lib":
            continue
        sites = b.call_sites(R.path_endswith("SvgElement::eval_attributes"))
        if not sites:
            continue
        groups = {}
        for (bb, t, c) in sites:
            n += 1
            l = R.origin_local(b, t["args"][0])
            src = ("local", l)
            if l is not None:
                d = b.single_def(l)
                if d is not None and d[1] == R.TERM and "fn" in d[2] and Callee(d[2]["fn"]).decl_path == "std::clone::Clone::clone":
                    o = R.origin(b, d[2]["args"][0], carriers={})
                    if o[0] == "field":
                        src = ("field", o[1][0], tuple(str(z) for z in o[1][1] if z != "*"))
                    elif o[0] == "arg":
                        src = ("arg", o[1])
            groups.setdefault(src, []).append((bb, t))
        for src, gs in groups.items():
            chk.ob(len(gs) == 1, "A13.single-evaluation", f"{b.short}:{'.'.join(str(x) for x in src[1:])}", b.where(gs[0][0], gs[0][1].get("line")), "one eval_attributes call per source element", f"{b.short} evaluates the attributes of {len(gs)} copies of the same element ({', '.join(b.where(x, t.get('line')) for x, t in gs)}): every `{{{{..}}}}` in them runs twice per occurrence - random() / randint() draw twice, so everything after it sees a different sequence")
    chk.floor("A13.single-evaluation", n, 4, "eval_attributes call site")


def _fn(prog, name):
    return prog.body(EXPR + name)


def _local_callees(prog, body):
    return {x.path for t in prog.edges.get(body.id, ()) for x in [prog.bodies[t]]}


def skeleton(prog, chk):
    chain = [("expr", "logical"), ("logical", "comparison"), ("comparison", "term"), ("term", "factor"), ("factor", "primary"), ("primary", "primary_inner"), ("expr_list", "expr")]
    # the atom level (numbers, variables, parentheses, calls, unary minus) is `primary_inner` under `primary`; where the
    # two are one function (the inner one was split into helpers that are read as part of their caller) that function is
    # the atom level and - through parentheses, arguments and the unary minus - the only one that may call upwards
    merged_atom = prog.maybe_body(EXPR + "primary_inner") is None
    if merged_atom:
        chain = [c_ for c_ in chain if c_ != ("primary", "primary_inner")]
    for a, b in chain:
        fa = _fn(prog, a)
        chk.touch(fa)
        chk.ob(EXPR + b in _local_callees(prog, fa), "A1.grammar", f"{a}->{b}", fa.where(), f"{a}() parses its operands with {b}()", f"{a}() no longer calls {b}(): the precedence chain is broken")
    # no level calls a looser level directly (other than through parentheses / calls in primary_inner)
    order = ["expr_list", "expr", "logical", "comparison", "term", "factor", "primary"]
    if merged_atom:
        order = order[:-1]
    for i, a in enumerate(order):
        fa = _fn(prog, a)
        bad = [b for b in order[: i + 1] if EXPR + b in _local_callees(prog, fa)]
        if a == "expr_list":
            bad = [b for b in bad if b != "expr_list"] if EXPR + "expr_list" not in _local_callees(prog, fa) else ["expr_list"]
        chk.ob(not bad, "A1.grammar", f"{a}:no-up-call", fa.where(), f"{a}() never re-enters its own or a looser precedence level (left associativity comes from its loop)", f"{a}() calls {bad}: associativity / precedence would change")
    # binary levels loop over their operators
    for a, b in (("logical", "comparison"), ("term", "factor"), ("factor", "primary")):
        fa = _fn(prog, a)
        inloop = [bb for (bb, t, c) in fa.call_sites(R.path_is(EXPR + b)) if any(bb in bl for bl in fa.loops.values())]
        chk.ob(bool(inloop), "A1.grammar", f"{a}:loop", fa.where(), f"{a}() consumes a chain of operators in a loop, each right operand parsed by {b}() (left-to-right)", f"{a}() does not parse repeated operators in a loop")
    # unary minus / parentheses in primary_inner
    pi = prog.body(EXPR + ("primary" if merged_atom else "primary_inner"))
    h = prog.hir[pi.id]
    arms = {k: prog.hir_expand(v) for k, v in _arms_by_variant(h).items()}  # an arm that hands over to a new helper: the helper's body counts
    sub = arms.get("Sub")
    ok = sub is not None and any(n.get("op") == "Neg" for n in hirq.exprs(sub, "Unary")) and "primary" in _called_fns(sub)
    chk.ob(ok, "A1.grammar", "primary:unary-minus", pi.where(), "unary minus negates the following primary", "unary minus is no longer `-(primary)`")
    op = arms.get("OpenParen")
    ok = op is not None and "expr_list" in _called_fns(op) and _requires(op, "CloseParen")
    chk.ob(ok, "A1.grammar", "primary:parentheses", pi.where(), "`(` parses an expression list and requires `)`", "parenthesised expressions no longer require the closing parenthesis")
    sy = arms.get("Symbol")
    ok = sy is not None and _requires(sy, "OpenParen") and _requires(sy, "CloseParen") and "eval_function" in _called_fns(sy) and "expr_list" in _called_fns(sy)
    chk.ob(ok, "A1.grammar", "primary:call", pi.where(), "`name(` parses the argument list, evaluates the function and requires `)`", "function calls no longer require both parentheses")


def _arms_by_variant(owner):
    """{variant short name: arm body} over all matches of the function whose patterns name enum variants"""
    out = {}
    for m in hirq.exprs(owner["body"], "Match"):
        if m.get("src") not in ("Normal", None):
            continue
        for a in m["arms"]:
            for p in _variants_in_pat(a["pat"]):
                out.setdefault(p, a["body"])
    return out


def _variants_in_pat(pat):
    out = []
    p = pat.get("p")
    if p in ("path", "tstruct", "struct"):
        name = pat["res"].get("path", "").split("::")[-1]
        if name not in ("Some", "Ok", "Err", "None"):
            out.append(name)
        for x in pat.get("pats", []):
            out += _variants_in_pat(x)
    elif p in ("or", "tuple"):
        for x in pat["pats"]:
            out += _variants_in_pat(x)
    elif p == "ref":
        out += _variants_in_pat(pat["sub"])
    return out


def _called_fns(node):
    out = set()
    for n in hirq.exprs(node, "Call"):
        out.add(hirq.callee_path(n).split("::")[-1])
    for n in hirq.exprs(node, "MethodCall"):
        out.add(n["name"])
    return out


def _requires(node, token):
    for n in hirq.exprs(node, "MethodCall"):
        if n["name"] == "require":
            for a in n["args"]:
                for p in hirq.exprs(a, "Path"):
                    if (p.get("res") or {}).get("path", "").endswith("Token::" + token):
                        return True
    return False


def operators(prog, chk):
    """A17 over scripted token streams: each binary level of the grammar is *executed* in the affine evaluator with
    `peek()` answering from a script (indexed by the number of `advance()` calls), operand parsers as numbered opaque
    values and `loop`s unrolled; the value returned must be the reference term (left-assoc, conventional operator)."""
    from sa import algebra as A
    from sa import linform as L

    def run(fn, operand, toks, words=()):
        vals = [("some", ("variant", t)) for t in toks] + [("none",)]
        script = {"peek": {"tick": "advance", "values": vals}}
        if words or "Symbol" in toks:
            script["parse"] = {"tick": "advance", "values": [("variant", w) for w in words] + [("err",)]}
        ev = A.Evaluator(prog, script=script, numbered=(operand,), unroll=8, transparent=("one_number", "into", "fstr", "cloned"))
        try:
            sm = ev.summary(EXPR + fn)
        except Exception as e:  # noqa: BLE001 - a crash of the evaluator is "cannot decide", reported as such
            return None, f"evaluator failed: {e!r}"
        return (sm or {}).get("ret"), ""

    def o(name, i):
        return A.atom(f"{name}{i}", [])

    def nz(x):
        return A.atom("ne", sorted([x, {}], key=A.canon))

    n = 0
    cases = []
    t = lambda i: o("factor", i)  # noqa: E731
    cases += [
        ("term", "factor", (), (), t(1), "a lone operand is returned as is"),
        ("term", "factor", ("Add",), (), L._add(t(1), t(2)), "a + b"),
        ("term", "factor", ("Sub",), (), L._add(t(1), t(2), -1), "a - b"),
        ("term", "factor", ("Add", "Sub"), (), L._add(L._add(t(1), t(2)), t(3), -1), "a + b - c, left to right"),
        ("term", "factor", ("Sub", "Add"), (), L._add(L._add(t(1), t(2), -1), t(3)), "a - b + c, left to right"),
        ("term", "factor", ("Sub", "Sub"), (), L._add(L._add(t(1), t(2), -1), t(3), -1), "(a - b) - c"),
    ]
    for other in ("Mul", "Div", "Mod", "CloseParen", "Comma"):
        cases.append(("term", "factor", (other,), (), t(1), f"`{other}` is not consumed at the additive level"))
    pr = lambda i: o("primary", i)  # noqa: E731
    cases += [
        ("factor", "primary", (), (), pr(1), "a lone operand is returned as is"),
        ("factor", "primary", ("Mul",), (), A.mul(pr(1), pr(2)), "a * b"),
        ("factor", "primary", ("Div",), (), A.atom("div", [pr(1), pr(2)]), "a / b"),
        ("factor", "primary", ("Mod",), (), A.atom("rem_euclid", [pr(1), pr(2)]), "a % b is the Euclidean remainder"),
        ("factor", "primary", ("Mul", "Div"), (), A.atom("div", [A.mul(pr(1), pr(2)), pr(3)]), "(a * b) / c, left to right"),
        ("factor", "primary", ("Div", "Mul"), (), A.mul(A.atom("div", [pr(1), pr(2)]), pr(3)), "(a / b) * c, left to right"),
        ("factor", "primary", ("Div", "Div"), (), A.atom("div", [A.atom("div", [pr(1), pr(2)]), pr(3)]), "(a / b) / c"),
    ]
    for other in ("Add", "Sub", "CloseParen", "Comma"):
        cases.append(("factor", "primary", (other,), (), pr(1), f"`{other}` is not consumed at the multiplicative level"))
    tm = lambda i: o("term", i)  # noqa: E731
    cmp_ref = {
        "Eq": A.atom("eq", sorted([tm(1), tm(2)], key=A.canon)),
        "Ne": A.atom("ne", sorted([tm(1), tm(2)], key=A.canon)),
        "Lt": A.atom("lt", [tm(1), tm(2)]),
        "Le": A.atom("le", [tm(1), tm(2)]),
        "Gt": A.atom("lt", [tm(2), tm(1)]),
        "Ge": A.atom("le", [tm(2), tm(1)]),
    }
    for w, ref in cmp_ref.items():
        cases.append(("comparison", "term", ("Symbol",), (w,), ref, f"a {w.lower()} b compares the two operands in source order and yields 0/1"))
    cases.append(("comparison", "term", (), (), tm(1), "a lone operand is returned as is"))
    cases.append(("comparison", "term", ("Add",), (), tm(1), "an arithmetic operator is not consumed at the comparison level"))
    cases.append(("comparison", "term", ("Symbol",), (), tm(1), "a word that is not a comparison operator is not consumed"))
    cm = lambda i: o("comparison", i)  # noqa: E731
    cases += [
        ("logical", "comparison", (), (), cm(1), "a lone operand is returned as is"),
        ("logical", "comparison", ("Symbol",), ("And",), A.atom("and", sorted([nz(cm(1)), nz(cm(2))], key=A.canon)), "a and b: both non-zero"),
        ("logical", "comparison", ("Symbol",), ("Or",), A.atom("or", sorted([nz(cm(1)), nz(cm(2))], key=A.canon)), "a or b: either non-zero"),
        ("logical", "comparison", ("Symbol",), ("Xor",), A.atom("ne", sorted([nz(cm(1)), nz(cm(2))], key=A.canon)), "a xor b: exactly one non-zero"),
        ("logical", "comparison", ("Symbol", "Symbol"), ("And", "Or"), A.atom("or", sorted([nz(A.atom("and", sorted([nz(cm(1)), nz(cm(2))], key=A.canon))), nz(cm(3))], key=A.canon)), "(a and b) or c, left to right"),
        ("logical", "comparison", ("Symbol",), (), cm(1), "a word that is not a logical operator is not consumed"),
    ]
    for fn, operand, toks, words, ref, what in cases:
        n += 1
        f = _fn(prog, fn)
        chk.touch(f)
        got, why = run(fn, operand, toks, words)
        stream = " ".join(list(words) if words and len(words) == len(toks) else toks) or "(end)"
        chk.ob(
            got is not None and A.equal(got, ref),
            "A17.operator-chains",
            f"{fn}:{'-'.join(words or toks) or 'end'}{'' if words or not toks or fn not in ('comparison', 'logical') else ':other'}",
            f.where(),
            f"{fn}() over the operator stream `{stream}` returns {A.canon(ref)} ({what})",
            f"{fn}() over the operator stream `{stream}` returns {A.canon(got) if got is not None else 'a value the evaluator cannot follow'} {why}- expected {A.canon(ref)} ({what})",
        )
    chk.floor("A17.operator-chains", n, 37, "operator stream evaluated against the reference term")
    # words
    for ty, words in (("ComparisonOp", CMP_WORDS), ("LogicalOp", LOGIC_WORDS)):
        b = prog.body(f"<svgdx::expression::{ty} as std::str::FromStr>::from_str")
        tbl = _strmatch_variants(prog.hir[b.id])
        chk.ob(tbl == words, "A15.operator-wiring", f"{ty}:words", b.where(), f"operator words {sorted(words)} select the like-named {ty} variants", f"{ty}::from_str maps {tbl} (expected {words})")


def _table_variants(prog, owner):
    """name -> variant from a constant table of (name, Variant) pairs the function looks the name up in
    (`const NAMES: &[(&str, Function)] = &[("abs", Function::Abs), ..]`)"""
    consts = {h_["path"]: h_ for h_ in prog.hir.values() if isinstance(h_, dict) and h_.get("kind") in ("Const", "Static", "AssocConst") and isinstance(h_.get("body"), dict)}
    tbl = {}
    for n in hirq.exprs(owner["body"], "Path"):
        c = consts.get((n.get("res") or {}).get("path", ""))
        if c is None:
            continue
        for t in hirq.exprs(c["body"], "Tup"):
            its = t.get("items", [])
            if len(its) == 2 and isinstance(hirq.lit_str(its[0]), str) and its[1].get("k") == "Path":
                r = its[1].get("res") or {}
                if str(r.get("dk", "")).startswith("Ctor") or "Variant" in str(r.get("dk", "")):
                    tbl[hirq.lit_str(its[0])] = r.get("path", "").split("::")[-1]
    return tbl


def _strmatch_variants(owner, prog=None):
    tbl = {}
    if prog is not None and not list(hirq.str_matches(owner)):
        return _table_variants(prog, owner)
    for m, arms in hirq.str_matches(owner):
        for ls, a in arms:
            vs = [((n.get("res") or {}).get("path", "").split("::")[-1]) for n in hirq.exprs(a["body"], "Path") if (n.get("res") or {}).get("dk", "").startswith("Ctor") or "Variant" in (n.get("res") or {}).get("dk", "")]
            vs = [v for v in vs if v not in ("Ok", "Err", "Some", "None")]
            for l in ls:
                if l != hirq.WILD and vs:
                    tbl[l] = vs[0]
    return tbl


# ---------------------------------------------------------------------------
def extract_functions(prog):
    """{name: {variant, accessor(s), primitives}} from Function::from_str and eval_function"""
    fs = prog.body("<svgdx::functions::Function as std::str::FromStr>::from_str")
    names = _strmatch_variants(prog.hir[fs.id], prog)
    ef = prog.body("svgdx::functions::eval_function")
    arms = _arms_by_variant(prog.hir[ef.id])
    out = {}
    for name, variant in names.items():
        a = arms.get(variant)
        if a is None:
            out[name] = dict(variant=variant, missing=True)
            continue
        methods = []
        for n in hirq.exprs(a, "MethodCall"):
            d = n.get("def", "")
            last = n["name"]
            if last in BOILER:
                continue
            methods.append(last)
        bins = sorted({n["op"] for n in hirq.exprs(a, "Binary")})
        unary = sorted({n["op"] for n in hirq.exprs(a, "Unary") if n["op"] == "Neg"})
        accessors = sorted({m for m in methods if m in ("one_number", "number_pair", "number_triple", "number_list", "pair", "flatten", "string_list", "one_string", "to_string_vec")})
        prims = [m for m in methods if m not in accessors]
        lits = sorted({str(n["lit"].get("float", n["lit"].get("int"))) for n in hirq.exprs(a, "Lit") if isinstance(n.get("lit"), dict) and ("float" in n["lit"] or "int" in n["lit"])})
        prims = [m for m in prims if m not in ("push", "contains", "get_rng")]
        out[name] = dict(variant=variant, accessors=accessors, primitives=prims, binops=bins + unary)
    return out


def functions(prog, chk):
    got = extract_functions(prog)
    with open(SPEC) as fh:
        spec = json.load(fh)["functions"]
    fs = prog.body("<svgdx::functions::Function as std::str::FromStr>::from_str")
    chk.floor("A15.function-wiring", len(got), 53, "built-in function name")
    for name in sorted(set(spec) | set(got)):
        g, s = got.get(name), spec.get(name)
        if g is None:
            chk.bad("A15.function-wiring", name, fs.where(), f"built-in function `{name}` no longer exists")
        elif s is None:
            chk.bad("A15.function-wiring", name, fs.where(), f"new built-in function `{name}` ({g}) is not in the reviewed reference table policy/spec/functions.json")
        else:
            keys = ("variant", "accessors", "primitives", "binops") if set(s.get("accessors", [])) & {"one_number", "number_pair", "number_triple"} and "flatten" not in s.get("accessors", []) else ("variant", "accessors", "primitives")
            same = all(g.get(k) == s.get(k) for k in keys)
            if not same and g.get("variant") == s.get("variant"):
                # the arm's fingerprint (accessors / primitives / operators) differs from the reviewed one.  One primitive
                # or operator exchanged for its opposite is a changed function; anything else is an arm that was
                # rewritten (helpers, slice patterns, iterator chains), which the fingerprint cannot judge
                swaps = [{"min", "max"}, {"floor", "ceil"}, {"sin", "cos"}, {"asin", "acos"}, {"Add", "Sub"}, {"Mul", "Div"}, {"Lt", "Gt"}, {"Le", "Ge"}, {"Lt", "Le"}, {"Gt", "Ge"}, {"Eq", "Ne"}, {"to_degrees", "to_radians"}, {"first", "last"}, {"head", "tail"}]
                dp = set(g.get("primitives") or []) ^ set(s.get("primitives") or [])
                db = set(g.get("binops") or []) ^ set(s.get("binops") or []) if "binops" in keys else set()
                swapped = (dp in swaps and not db and g.get("accessors") == s.get("accessors")) or (db in swaps and not dp and g.get("accessors") == s.get("accessors"))
                if not swapped:
                    chk.undecided("A15.function-wiring", name, fs.where(), f"the arm of `{name}` was rewritten (now {dict((k, g.get(k)) for k in keys)}, reviewed {dict((k, s.get(k)) for k in keys)}): its fingerprint cannot say whether it computes the same")
                    continue
            chk.ob(same, "A15.function-wiring", name, fs.where(), f"`{name}` -> {s['variant']}: arguments via {s['accessors']}, primitives {s['primitives']} {s['binops']}", f"`{name}` is wired to {g} but the reviewed reference is {s}")
    # documented functions exist
    doc = "/repo/docs/mdbook/src/reference/expressions.md"
    names = []
    try:
        with open(doc) as fh:
            for line in fh:
                m = re.match(r"\|\s*`([a-z_0-9]+)\(", line)
                if m:
                    names.append(m.group(1))
    except OSError:
        pass
    chk.floor("A16.documented-functions", len(names), 30, "function documented in docs/mdbook/src/reference/expressions.md")
    missing = [n for n in names if n not in got]
    chk.ob(not missing, "A16.documented-functions", "expressions.md", "docs/mdbook/src/reference/expressions.md", f"all {len(names)} documented built-in functions are implemented", f"documented functions without implementation: {missing}")


# classification probes: a failure selects another interpretation of the same tokens, nothing is lost
TYPE_PROBES = {
    (EXPR + "term", "one_number"): "type probe: a non-numeric left operand (string / list) is returned unchanged; arithmetic applies to single numbers only",
    (EXPR + "factor", "one_number"): "type probe: a non-numeric left operand is returned unchanged",
    (EXPR + "comparison", "one_number"): "type probe: comparison applies to single numbers only",
    (EXPR + "comparison", "parse"): "word probe: a symbol that is not a comparison word ends the comparison level",
    (EXPR + "logical", "parse"): "word probe: a symbol that is not a logical word ends the logical level (the unconsumed token then fails the end-of-tokens test)",
}


def malformed(prog, chk):
    # end-of-tokens test before Ok in evaluate_inner and lookup
    for fn in ("svgdx::expression::evaluate_inner", "svgdx::expression::EvalState::<'a>::lookup"):
        b = prog.body(fn)
        chk.touch(b)
        peeks = b.call_sites(lambda c: c.path.endswith("EvalState::<'a>::peek"))
        okexits = [x for x, i, s in b.all_stmts() if "lhs" in s and s["lhs"][0] == 0 and not s["lhs"][1] and s["rv"].get("variant") == "Ok"]
        # Ok exits that return a *parsed* value (downstream of expr_list) must be behind peek().is_none()
        el = b.call_sites(R.path_is(EXPR + "expr_list"))
        ok = bool(peeks) and bool(el)
        if ok:
            pb, pt, _ = peeks[0]
            # the edge on which no token remains: `peek().is_none()` true, `peek().is_some()` false, or the None arm of a match on peek()
            tt = ft = None
            for pb, pt, _ in peeks:
                for (ib, it, ic) in b.call_sites(lambda c: c.path.endswith("Option::<T>::is_none") or c.path.endswith("Option::<T>::is_some")):
                    o_ = R.origin(b, it["args"][0], carriers={})
                    if o_[0] == "call" and o_[1] == pb and b.term(it["t"])["k"] == "switch":
                        a_, b_ = R.switch_targets_bool(b.term(it["t"]))
                        tt, ft = (a_, b_) if ic.path.endswith("is_none") else (b_, a_)
                if tt is None and pt.get("dest") and not pt["dest"][1]:
                    sw_ = R.find_switch_on_discr(b, pt["t"], pt["dest"][0])
                    if sw_:
                        m_ = dict((v, tgt) for v, tgt in sw_[1]["vals"])
                        none_t = m_.get(0, sw_[1]["otherwise"] if 1 in m_ else None)
                        some_t = m_.get(1, sw_[1]["otherwise"] if 0 in m_ else None)
                        if none_t is not None and some_t is not None and none_t != some_t:
                            tt, ft = none_t, some_t
                if tt is not None:
                    break
            if tt is None:
                chk.undecided("A13.trailing-tokens", fn.split("::")[-1], b.where(), "how the end of the token list is tested (peek() is neither asked is_none() / is_some() nor matched on) is not read here")
                continue
            else:
                # every `Ok(v)` whose v is the value parsed by expr_list must be behind the is_none() == true edge
                parsed_ok = []
                for x, i, s_ in b.all_stmts():
                    rv = s_.get("rv")
                    if rv and rv["k"] == "aggr" and rv.get("adt") == "std::result::Result" and rv.get("variant") == "Ok":
                        o = R.origin(b, rv["ops"][0], carriers={"branch": 0})
                        if o[0] == "call" and o[1] == el[0][0]:
                            parsed_ok.append(x)
                ok = bool(parsed_ok) and all(b.dominates(tt, x) for x in parsed_ok) and R.assigns_result_variant(b, b.reach([ft], avoid=[tt]), "Err")
        chk.ob(ok, "A13.trailing-tokens", fn.split("::")[-1], b.where(), "a parsed value is returned only when no tokens remain (trailing garbage is an error)", "an expression can be accepted with unconsumed tokens")
    # who runs the list parser: the two entries checked above, the parser itself (a parenthesised / argument list) - and
    # nobody else without looking at what is left over
    parser = prog.reachable_from({prog.body(EXPR + "expr_list").id}) if hasattr(prog, "reachable_from") else set()
    for b2 in prog.bodies.values():
        if b2.unit != "svgdx-lib" or b2.path in ("svgdx::expression::evaluate_inner", "svgdx::expression::EvalState::<'a>::lookup") or b2.id in parser:
            continue
        calls = b2.call_sites(R.path_is(EXPR + "expr_list"))
        if not calls:
            continue
        chk.touch(b2)
        looks = b2.call_sites(lambda c: c.path.endswith("EvalState::<'a>::peek") or c.path.split("::")[-1] in ("is_empty", "len") and "Token" in c.inst)
        chk.ob(bool(looks), "A13.trailing-tokens", f"{b2.short}:direct-parse", b2.where(calls[0][0], calls[0][1].get("line")), "a function that runs the list parser itself also tests what is left of the tokens", f"{b2.short} runs expr_list() on its own EvalState and never looks at the tokens left over (no peek()): whatever follows the first token the list parser cannot consume is silently dropped - `data=\"1, 2 3\"` is the list [1, 2]")
    # unknown function / variable errors propagate: parse::<Function>()? in primary_inner
    pi = prog.body(EXPR + "primary_inner")
    from sa import errfate
    bad = []
    n = 0
    for fnp in (EXPR + "primary_inner", EXPR + "primary", EXPR + "factor", EXPR + "term", EXPR + "logical", EXPR + "expr_list", EXPR + "expr", "svgdx::expression::evaluate_inner", "svgdx::expression::EvalState::<'a>::lookup", "svgdx::functions::eval_function"):
        b = prog.body(fnp)
        for s in errfate.result_fates(prog, b):
            if "svgdx::errors::SvgdxError" not in s.dty:
                continue
            n += 1
            base = s.fate.split(":")[0].replace("transformed-", "")
            if base not in ("propagated", "returned", "matched-returned"):
                if (b.path, s.callee.path.split("::")[-1]) in TYPE_PROBES:
                    chk.ok("A6.expr-errors", f"{b.short}:{s.callee.path.split('::')[-1]}:probe", b.where(s.bb, s.line), TYPE_PROBES[(b.path, s.callee.path.split("::")[-1])], by="table")
                    continue
                bad.append((b.short, s.callee.path.split("::")[-1], s.fate, s.line))
    chk.floor("A6.expr-errors", n, 40, "Result<_, SvgdxError> produced inside the evaluator")
    chk.ob(not bad, "A6.expr-errors", "evaluator", pi.where(), f"all {n} SvgdxError results inside the evaluator are propagated", f"evaluator drops errors at {bad[:5]} (comparison()'s type probes are outside this list by design)")
    # arity: number_pair / number_triple match exactly 2 / 3 values
    for fn, n_ in (("number_pair", 2), ("number_triple", 3)):
        b = prog.maybe_body(f"svgdx::expression::ExprValue::{fn}")
        if b is None:
            chk.anchor_missing("A13.arity", f"ExprValue::{fn} not found")
            continue
        oks = [x for x, i, s in b.all_stmts() if "lhs" in s and s["lhs"][0] == 0 and not s["lhs"][1] and s["rv"].get("variant") == "Ok"]
        from sa import discharge as D
        good = bool(oks)
        for x in oks:
            exact = False
            for (a, s_) in D.dominating_edges(b, x):
                r = D.len_lower_bound_on_edge(b, a, s_)
                if r and r[1] == n_ and r[2] == n_:
                    exact = True
            good = good and exact
        chk.ob(good, "A13.arity", fn, b.where(), f"{fn}() succeeds only for exactly {n_} values (surplus arguments are an error)", f"{fn}() can succeed when the number of values is not exactly {n_}")


def each_occurrence(prog, chk):
    """eval_expr: every `{{..}}` block found in a value is handed to eval_str in the same pass of the scanning loop
    (no block is answered from a cache or skipped)"""
    b = prog.body("svgdx::expression::eval_expr")
    chk.touch(b)
    evals = [bb for (bb, t, c) in b.call_sites(lambda c: c.path == "svgdx::expression::eval_str")]
    finds = [(bb, t) for (bb, t, c) in b.call_sites(lambda c: c.path.endswith("str>::find"))]
    if len(evals) != 1 or not finds:
        chk.anchor_missing("A13.each-occurrence", f"eval_expr: expected one eval_str call and the delimiter searches (found {len(evals)} / {len(finds)})")
        return
    ev = evals[0]
    dom = [(bb, t) for (bb, t) in finds if b.dominates(bb, ev)]
    if not dom:
        chk.anchor_missing("A13.each-occurrence", "eval_expr: no delimiter search dominates the eval_str call")
        return
    # the innermost dominating search is the one for the closing delimiter
    end_bb, end_t = [x for x in dom if all(b.dominates(y[0], x[0]) for y in dom)][0]
    sw = R.find_switch_on_discr(b, end_t["t"], end_t["dest"][0])
    some = [tgt for v, tgt in sw[1]["vals"] if v == 1] if sw else []
    loop = R.loop_containing(b, ev)
    if not some or loop is None:
        chk.anchor_missing("A13.each-occurrence", "eval_expr: cannot find the `found` edge of the closing-delimiter search / the scanning loop")
        return
    header = loop[0] if isinstance(loop, (tuple, list)) else loop.get("header")
    leak = header in b.reach(some, avoid={ev})
    chk.ob(not leak, "A13.each-occurrence", "eval_expr", b.where(ev), "every {{..}} block found is evaluated by eval_str in that pass of the scan (no path from `closing delimiter found` back to the loop head avoids it)", "eval_expr can consume a {{..}} block without evaluating it (a path from `closing delimiter found` returns to the loop head without calling eval_str): a repeated expression is answered from an earlier result, so random functions do not advance once per occurrence")


def once_and_rng(prog, chk):
    from props import C16
    sub = type(chk)(chk.pid, chk.tier)
    C16.loop_element(prog, sub)
    for o in sub.obs:
        if o["key"].endswith("count-once") or o["key"].endswith("params-once"):
            o2 = dict(o)
            chk.obs.append(o2)
    ef = prog.body("svgdx::functions::eval_function")
    arms = {k: prog.hir_expand(v) for k, v in _arms_by_variant(prog.hir[ef.id]).items()}  # an arm that hands over to a new helper: the helper's body counts
    users = [v for v, a in arms.items() if "get_rng" in _called_fns(a)]
    each_occurrence(prog, chk)
    chk.ob(sorted(users) == ["RandInt", "Random"], "A10.rng-arms", "eval_function", ef.where(), "the RNG is drawn from only in the random() and randint() arms, once per evaluation of the call", f"RNG draws in arms {sorted(users)}")


if __name__ == "__main__":
    import sys
    sys.path.insert(0, os.path.dirname(os.path.dirname(os.path.abspath(__file__))))
    from sa import facts, prog as pm
    p = pm.Program(facts.load("/repo"))
    print(json.dumps({"functions": extract_functions(p)}, indent=1))


def single_precision_only(prog, chk):
    """IEEE *single* precision: no f64 value anywhere in the expression evaluator (src/expression.rs, src/functions.rs) -
    a wider running total changes results (`100000000 + 3 - 100000000`)"""
    n32 = 0
    wide = []
    for b in prog.bodies.values():
        if not (b.path.startswith("svgdx::expression::") or b.path.startswith("svgdx::functions::") or "svgdx::expression::" in b.path.split(" as ")[0]):
            continue
        for i, l in enumerate(b.locals):
            ty = (l.get("ty") or "").strip()
            if ty == "f32":
                n32 += 1
            if ty == "f64" or "f64" in ty.split("<")[0]:
                wide.append((b, i))
    chk.floor("A14.single-precision", n32, 50, "f32 local in the expression evaluator")
    for (b, i) in wide[:5]:
        chk.bad("A14.single-precision", f"{b.short}:f64", b.where(), f"{b.short} holds an f64 value (local _{i}): arithmetic carried out in double precision and rounded once gives different results from IEEE single-precision evaluation step by step")
    if not wide:
        chk.ok("A14.single-precision", "scan", "src/expression.rs", f"{n32} f32 locals, no f64 in the evaluator")



def value_equality_is_structural(prog, chk):
    """`eq()` / `ne()` / `in()` and the infix `eq` / `ne` compare values, not their printed form: ExprValue's PartialEq is
    the derived one, or at least does not go through the text rendering (to_string_vec / fstr round a number to three
    decimals: 1.0004 would equal 1, and the two spellings of the operator would disagree)"""
    impls = [b for b in prog.bodies.values() if b.unit == "svgdx-lib" and "svgdx::expression::ExprValue as std::cmp::PartialEq" in b.path and b.path.split("::")[-1] in ("eq", "ne") and b.kind != "Closure"]
    if not impls:
        chk.undecided("A16.value-equality", "ExprValue", "src/expression.rs", "no PartialEq implementation for ExprValue found")
        return
    for b in impls:
        chk.touch(b)
        scope = [b] + prog.closures_of(b)
        rend = [(x, bb, t, c) for x in scope for (bb, t, c) in x.call_sites(lambda c: c.path.split("::")[-1] in ("to_string_vec", "to_string", "fstr", "format") and ("svgdx::" in c.path or "ToString" in c.path or "fmt::format" in c.path))]
        chk.ob(not rend, "A16.value-equality", f"ExprValue::{b.path.split('::')[-1]}", b.where(), "values are compared as values", f"ExprValue's equality compares the *rendered* values ({rend[0][3].path.split('::')[-1] if rend else ''}()): numbers that differ beyond the third decimal are equal for eq() / ne() / in() - eq(1.0004, 1) is 1 while `1.0004 eq 1` is 0")
