"""C03 Real SVG (namespaced root) passes through with an identical XML infoset (mechanisms)."""
from sa import rules as R, hirq
from sa.prog import P, Callee, op_place, op_const, const_str
from props import xmlsink as X

EXPLANATION = (
    "Decides the mechanisms without which pass-through cannot hold: (1) bypass dominance - in process_events the real-SVG "
    "edge (tested only at the top level) reaches nothing but `input.into()` and the return; real_svg is written only there; in "
    "postprocess the real_svg edge reaches only write_to; in the element dispatcher / Container the namespaced-<svg> exit "
    "returns the raw input events and is reached before any attribute evaluation; is_real_svg skips every non-element event; "
    "(2) escape balance per channel between reader and writer (shared with C02); (3) attribute order is normalised by a "
    "stable sort only. The normalisations applied on the pass-through path (class list, trailing blanks of text lines) are "
    "enumerated as findings. Undecided: infoset equality for all documents (compares two executions; quick-xml reader and "
    "writer being inverse on every event kind is trusted)."
)
TRUSTED = ["quick-xml reader/writer are inverse on the event kinds passed through as Event (PI, doctype, declaration)"]
ASSUMPTIONS = []

CTX = "svgdx::context::TransformerContext"
EL = "svgdx::element::SvgElement"
PE = "svgdx::transform::process_events"
PROCESSING = ("svgdx::events::tagify_events", "svgdx::transform::process_tags", EL + "::eval_attributes", EL + "::resolve_position", EL + "::transmute", EL + "::element_events")


def run(prog, chk):
    chk.rule(bypass, prog, chk)
    chk.rule(X.check_sinks, prog, chk)  # attribute values / text are held unescaped: the writer must escape unconditionally
    # the raw comment sink only matters for *generated* comments (F13, a C02/C05 matter); passed-through comments are the input's own
    chk.obs = [o for o in chk.obs if not (o["key"].startswith("A11.sink/") and o["key"].endswith(":from_escaped:comment"))]
    chk.rule(X.check_readers, prog, chk)
    chk.rule(X.text_bypass, prog, chk)
    chk.rule(stable_sort, prog, chk)
    chk.rule(normalisations, prog, chk)
    chk.rule(real_svg_scan, prog, chk)
    chk.rule(reader_defaults, prog, chk)
    chk.rule(passthrough_str_ops, prog, chk)
    chk.rule(top_level_predicate, prog, chk)
    chk.rule(qualified_names, prog, chk)
    chk.rule(attrmap_keys_verbatim, prog, chk)
    chk.rule(writer_is_read_only, prog, chk)
    chk.rule(graphics_vocabulary, prog, chk)
    chk.rule(inner_events_guard, prog, chk)
    chk.rule(passthrough_one_to_one, prog, chk)
    chk.rule(no_precheck, prog, chk)
    chk.rule(unreadable_tag_stays_raw, prog, chk)
    chk.rule(clip_lookup_needs_a_box, prog, chk)
    from props import strops
    chk.rule(strops.check_for, prog, chk, "C03")  # A14.str-ops: how this property's strings are cut up is a reviewed, frozen inventory
    from props import C05 as _C05
    chk.rule(_C05.normalisation_idempotent, prog, chk)  # the only normalisation is blank-line removal of the joined *text*: nothing else (CDATA) goes through it
    chk.rule(every_line_is_kept, prog, chk)
    chk.rule(reader_rejects_xml_errors_only, prog, chk)
    from props import strops as _so3
    chk.rule(_so3.check_evaluation_sites, prog, chk)  # nothing of a document that passes through is evaluated: not an id on the way to the registry, not an attribute
    chk.obs = [o for o in chk.obs if not (o["rule"] == "A14.class-unique")]


def clip_lookup_needs_a_box(prog, chk):
    """an element that contributes no box of its own (a namespaced <svg> embedded as it is, a <defs>, <style> ...) is
    not looked at further: in SvgElement::generate_events the `clip-path` reference is resolved only on the path where
    the element has a bounding box - on the other path an unknown id is not this tool's business and must not fail"""
    from sa import discharge as D

    b = prog.body("<svgdx::element::SvgElement as svgdx::transform::EventGen>::generate_events")
    chk.touch(b)
    sites = b.call_sites(lambda c: c.decl_path == "svgdx::context::ElementMap::get_element")
    if not sites:
        chk.undecided("A13.clip-lookup", "generate_events", b.where(), "no get_element call in SvgElement::generate_events")
        return
    for k, (bb, t, c) in enumerate(sites):
        guarded = False
        for (a, x) in D.dominating_edges(b, bb):
            sd = R.switch_discr_place(b, a)
            if sd and "Option<svgdx::position::BoundingBox>" in sd[1] and any(v == 1 and tg == x for v, tg in b.term(a)["vals"]):
                guarded = True
        chk.ob(guarded, "A13.clip-lookup", f"generate_events:get_element#{k}", b.where(bb, t.get("line")), "the clip-path reference is resolved only for an element that has a bounding box", "SvgElement::generate_events resolves the clip-path reference of an element that has no bounding box: embedded content that is passed through as it is (a namespaced <svg> with clip-path=\"url(#x)\") now fails with a reference error instead of being copied")


def unreadable_tag_stays_raw(prog, chk):
    """a start tag one of whose attribute values cannot be unescaped (an entity declared in a DTD) is not turned into
    an SvgElement - the conversion fails and the tag is carried as the raw input event.  In TryFrom<&BytesStart> the
    error of unescape_value() is propagated; if it is replaced by some value instead, `&name;` is held as text and is
    escaped again on output (`&amp;name;`)."""
    from sa import errfate

    n = 0
    for b in prog.bodies.values():
        if not b.path.startswith("<svgdx::element::SvgElement as std::convert::TryFrom<&quick_xml::events::BytesStart") and not b.path.startswith("svgdx::events::<impl std::convert::TryFrom<&quick_xml::events::BytesStart"):
            continue
        chk.touch(b)
        for site in errfate.result_fates(prog, b):
            if site.callee is None or site.callee.path.split("::")[-1] not in ("unescape_value", "decode_and_unescape_value"):
                continue
            n += 1
            base = site.fate.split(":")[0].replace("transformed-", "")
            chk.ob(base in ("propagated", "returned", "matched-returned"), "A6.unreadable-tag", f"{site.callee.path.split('::')[-1]}", b.where(site.bb, site.line), "an attribute value that cannot be unescaped makes the conversion fail (the tag is then passed on as the raw event)", f"the error of {site.callee.path.split('::')[-1]}() is {site.fate} ({site.detail}): a value with an entity that cannot be resolved is kept in some form and escaped again on output, `&name;` becomes `&amp;name;`")
    if n == 0:
        chk.undecided("A6.unreadable-tag", "try_from", "src/events.rs", "no unescape_value() call found in TryFrom<&BytesStart> for SvgElement")


def _bool_call_gate(body, callee_pred):
    """(call_bb, switch_bb, true_target, false_target) for `if f(..)` where f matches"""
    out = []
    for (bb, t, c) in body.call_sites(callee_pred):
        from props.C02 import _bool_switch
        bs = _bool_switch(body, t["t"], t["dest"][0])
        if bs:
            tt, ft, sb = bs
            out.append((bb, sb, tt, ft))
    return out


def bypass(prog, chk):
    pe = prog.body(PE)
    chk.touch(pe)
    gates = _bool_call_gate(pe, R.path_is("svgdx::transform::is_real_svg"))
    chk.floor("A13.bypass", len(gates), 1, "is_real_svg test in process_events")
    for (cb, sb, tt, ft) in gates:
        reg = pe.reach([tt], avoid=[ft])
        calls = sorted({Callee(pe.term(b)["fn"]).path for b in reg if pe.term(b)["k"] == "call" and "fn" in pe.term(b) and Callee(pe.term(b)["fn"]).local})
        proc = [c for c in calls if c in PROCESSING or "generate_events" in c]
        only_into = all(("From<svgdx::events::InputList>" in c or "as std::convert::From" in c or "Into" in c or c.endswith("::into")) for c in calls)
        chk.ob(
            not proc and any(pe.term(b)["k"] == "ret" for b in reg),
            "A13.bypass",
            "process_events:real-svg-edge",
            pe.where(sb),
            f"on the real-SVG edge process_events only converts the input events and returns (local calls: {[c.split('::')[-1] for c in calls]})",
            f"processing steps are reachable for real SVG: {proc}",
        )
        edits = [c for c in calls if not ("From<svgdx::events::InputList>" in c or "as std::convert::From" in c or "Into" in c or c.endswith("::into") or c.endswith("::from"))]
        chk.ob(
            not edits,
            "A13.bypass",
            "process_events:real-svg-untouched",
            pe.where(sb),
            "on the real-SVG edge the input events are converted and returned as they are (no other library call)",
            f"on the real-SVG edge process_events does more than convert the input events ({[c.split('::')[-1] for c in edits]}): a document that must pass through verbatim is edited (e.g. a configured style written onto its root)",
        )
        # the test is made only at the top level
        tl = _bool_call_gate(pe, lambda c: c.path == CTX + "::at_top_level")
        ok = bool(tl) and R.control_dependent_only_via(pe, cb, (tl[0][1], tl[0][2]))
        chk.ob(
            ok,
            "A13.bypass",
            "process_events:top-level-only",
            pe.where(cb),
            "the real-SVG shortcut (and the real_svg flag) applies only at the top level of the document; nested namespaced <svg> elements go through the dispatcher",
            "process_events applies the real-SVG shortcut at every nesting level: a namespaced <svg> as first child of an svgdx root passes all its siblings through unprocessed and marks the whole document as real SVG",
        )
    ctx_fields = [f_["name"] for f_ in ((prog.adt(CTX).get("variants") or [{}])[0].get("fields") or [])]
    if "real_svg" not in ctx_fields:
        # the pass-through decision is not carried in a flag of the context (it may be returned, say): the flag-based
        # reading of the two obligations below does not apply
        chk.undecided("A10.real-svg-writers", "real_svg", pe.where(), "TransformerContext has no `real_svg` field: how postprocess learns that the document is passed through is not read here")
        chk.undecided("A13.bypass", "postprocess:real-svg-edge", pe.where(), "TransformerContext has no `real_svg` field: what postprocess does for a passed-through document is not read here")
        return
    w = {k for k in R.field_writers(prog, "real_svg", CTX) if not k.endswith("::default")}
    chk.ob(w == {PE}, "A10.real-svg-writers", "real_svg", pe.where(), "real_svg is written only by process_events", f"real_svg writers: {sorted(w)}")
    # postprocess: real_svg edge reaches only write_to
    pp = prog.body("svgdx::transform::Transformer::postprocess")
    chk.touch(pp)
    gate = None
    for (bb, idx, node) in R.place_reads(pp, (".real_svg",)):
        if idx != R.TERM and "lhs" in node and not node["lhs"][1]:
            for (b, i, n, how, _c) in R.forward_value_uses(pp, node["lhs"][0]):
                if i == R.TERM and n["k"] == "switch":
                    gate = (b, n)
        elif idx == R.TERM and node["k"] == "switch":
            gate = (bb, node)
    if gate is None:
        chk.bad("A13.bypass", "postprocess:real-svg-edge", pp.where(), "postprocess does not branch on real_svg")
    else:
        sb, st = gate
        tt, ft = R.switch_targets_bool(st)
        reg = pp.reach([tt], avoid=[ft])
        calls = sorted({Callee(pp.term(b)["fn"]).path for b in reg if pp.term(b)["k"] == "call" and "fn" in pp.term(b) and Callee(pp.term(b)["fn"]).local})
        extra = [c for c in calls if c not in ("svgdx::events::OutputList::write_to",)]
        # the real edge must be the first thing decided: nothing written before it
        before = sorted({Callee(pp.term(b)["fn"]).path for b in pp.reachable if b != sb and pp.term(b)["k"] == "call" and "fn" in pp.term(b) and Callee(pp.term(b)["fn"]).local and sb in pp.reach([b])})
        chk.ob(
            not extra and not before and any(pp.term(b)["k"] == "ret" for b in reg) and ft not in reg,
            "A13.bypass",
            "postprocess:real-svg-edge",
            pp.where(sb),
            "for real SVG postprocess only writes the events and returns (no root synthesis, no style injection, no debug comments)",
            f"post-processing steps are reachable for real SVG: {extra or before or 'falls through to the svgdx path'}",
        )
    # nested namespaced svg: raw events, before any evaluation
    n_exit = 0
    for fn in ("<svgdx::transform::Container as svgdx::transform::EventGen>::generate_events", "<svgdx::element::SvgElement as svgdx::transform::EventGen>::generate_events"):
        b = prog.body(fn)
        chk.touch(b)
        for (bb, t, c) in b.call_sites(R.path_is(EL + "::all_events")):
            n_exit += 1
            ev = {x for (x, _, _) in b.call_sites(lambda c: c.path in PROCESSING or c.path == PE or c.path.endswith("AttrMap::insert") or c.path == EL + "::set_attr")}
            pre = [x for x in ev if bb in b.reach([x])]
            # guarded by name == "svg" and xmlns present
            conds = _svg_xmlns_guard(b, bb)
            chk.ob(
                not pre and conds,
                "A13.bypass",
                f"{b.short}:nested-svg",
                b.where(bb, t.get("line")),
                "a namespaced <svg> element returns its raw input events (all_events) before any attribute evaluation or processing",
                f"the nested namespaced <svg> exit is reached after evaluation/processing steps ({len(pre)}) or is not guarded by name == svg && xmlns present ({conds})",
            )
    chk.floor("A13.bypass.nested", n_exit, 2, "nested namespaced-svg pass-through exit (Container, empty-element form)")
    # the same stated as reachability: for an element named `svg` that has an `xmlns` attribute, neither function can
    # reach a step that interprets or rebuilds it (whatever the surrounding code looks like)
    for fn in ("<svgdx::transform::Container as svgdx::transform::EventGen>::generate_events", "<svgdx::element::SvgElement as svgdx::transform::EventGen>::generate_events"):
        b = prog.body(fn)
        name_eq = {}
        for (bb, t, c) in b.call_sites(lambda c: c.decl_path in ("std::cmp::PartialEq::eq", "std::cmp::PartialEq::ne")):
            lit = None
            for a in t["args"]:
                o = R.origin(b, a, carriers=dict(R.CARRIERS))
                if o[0] == "const" and "str" in o[1]:
                    lit = o[1]["str"]
            if lit is not None:
                name_eq[bb] = (lit == "svg") == (c.decl_path.endswith("::eq"))
        xm = {bb: 1 for (bb, t, c) in b.call_sites(R.path_endswith("SvgElement::get_attr")) if (lambda o: o[0] == "const" and o[1].get("str") == "xmlns")(R.origin(b, t["args"][1], carriers=dict(R.CARRIERS)) if len(t["args"]) > 1 else ("?",))}
        if not xm or not any(name_eq.values()):
            chk.undecided("A13.bypass", f"{b.short}:nested-svg-untouched", b.where(), "no test of the element name against `svg` / no get_attr(\"xmlns\") found: the nested real-SVG condition is not recognisable")
            continue
        opt = R.option_assumption(b, xm)
        notg = R.call_result_assumption(b, [(lambda c: c.path == EL + "::is_graphics_element", False)])  # `svg` is not in the graphics vocabulary (A15.graphics-vocabulary)

        def decide(bb, t, b=b, name_eq=name_eq, opt=opt, notg=notg):
            o = R.origin(b, t["op"], carriers={})
            neg = False
            if o[0] == "rv" and o[1].get("k") == "unop" and o[1].get("op") == "Not":
                neg = True
                o = R.origin(b, o[1]["a"], carriers={})
            if o[0] == "call" and o[1] in name_eq:
                tt, ft = R.switch_targets_bool(t)
                return [tt] if (name_eq[o[1]] != neg) else [ft]
            r = notg(bb, t)
            return r if r is not None else opt(bb, t)

        def call_value(bb, t, name_eq=name_eq, opt=opt, notg=notg):
            if bb in name_eq:
                return name_eq[bb]
            v = notg.call_value(bb, t)
            return v if v is not None else opt.call_value(bb, t)

        decide.call_value = call_value

        touching = {x for (x, t, c) in b.call_sites(lambda c: c.path in PROCESSING or c.path == PE or c.path == EL + "::set_attr" or c.path.endswith("AttrMap::insert") or (c.path.endswith("generate_events") and "OtherElement" in c.path))}
        touching |= {x for x, i, st in b.all_stmts() if st.get("rv", {}).get("k") == "aggr" and st["rv"].get("adt") == "svgdx::events::OutputEvent" and st["rv"].get("variant") in ("Start", "Empty")}
        hit = R.may_reach(b, touching, decide)
        chk.ob(not hit, "A13.bypass", f"{b.short}:nested-svg-untouched", b.where(), "for an element named svg with an xmlns attribute no evaluation / rebuilding step is reachable: it is emitted as its raw input events", f"{b.short} can evaluate or rebuild (eval_attributes / set_attr / a new Start or Empty event / OtherElement) an <svg> element that carries xmlns: embedded real SVG is no longer passed through as written")
    # is_real_svg skips non-element events
    irs = prog.body("svgdx::transform::is_real_svg")
    chk.touch(irs)
    tf = irs.call_sites(lambda c: c.decl_path == "std::convert::TryFrom::try_from")
    ok = False
    if tf and irs.loops:
        fb, ft_, fc = tf[0]
        sw = R.find_switch_on_discr(irs, ft_["t"], ft_["dest"][0])
        if sw:
            sb, st = sw
            ok_t = [tgt for v, tgt in st["vals"] if v == 0]
            nx = irs.call_sites(lambda c: c.decl_path == "std::iter::Iterator::next")
            some_t = None
            if nx:
                s2 = R.find_switch_on_discr(irs, nx[0][1]["t"], nx[0][1]["dest"][0])
                if s2:
                    some_t = [tgt for v, tgt in s2[1]["vals"] if v == 1]
            falses = [b for b, i, s in irs.all_stmts() if "lhs" in s and s["lhs"][0] == 0 and not s["lhs"][1] and (op_const(s["rv"].get("op")) or {}).get("bool") is False and some_t and irs.dominates(some_t[0], b)]
            ok = bool(ok_t) and bool(some_t) and all(irs.dominates(ok_t[0], b) for b in falses)
    if not ok and not irs.loops:
        # `events.iter().find_map(|ev| SvgElement::try_from(ev.clone()).ok())`: the first event that converts
        fm = irs.call_sites(lambda c: c.decl_path == "std::iter::Iterator::find_map")
        clos = [cb for cb in prog.closures_of(irs) if cb.call_sites(lambda c: c.decl_path == "std::convert::TryFrom::try_from") and cb.call_sites(lambda c: c.path.endswith("Result::<T, E>::ok"))]
        if fm and clos:
            ok = True
        elif not tf and not fm:
            chk.anchor_missing("A13.bypass", "is_real_svg: neither a loop over the events nor find_map(try_from) found")
            ok = None
    if ok is not None:
        chk.ob(ok, "A13.bypass", "is_real_svg:skips-non-elements", irs.where(), "is_real_svg decides on the first *element*; every other event (declaration, doctype, PI, comment, text) is skipped", "is_real_svg can answer `false` on a non-element event before the root (e.g. a DOCTYPE): such real SVG documents would be processed as svgdx")


def _in_loop_region(body, blocks, b):
    # a `return false` reached from inside the loop body (not the fall-through after the loop)
    return any(p in blocks for p in body.pred[b]) or b in blocks


def _svg_xmlns_guard(body, site_bb):
    from sa import discharge as D
    conds = D.dom_conditions(body, site_bb)
    has_eq = any(kind == "call" and payload[0] == "eq" and truth for kind, payload, truth in conds)
    has_xmlns = any(kind == "call" and payload[0] in ("is_some", "has_attr", "contains_key") and truth for kind, payload, truth in conds)
    if has_eq and has_xmlns:
        return True
    # the two tests may have been folded into one boolean (a predicate helper such as `is_namespaced_svg(el)`, spliced in
    # by sa/inline.py): both tests are made before the exit and the exit is taken on their combined result
    before = [b for b in body.reachable if site_bb in body.reach([b]) and b != site_bb]
    seen_eq = seen_ns = False
    for b in before:
        t = body.term(b)
        if t["k"] != "call" or "fn" not in t:
            continue
        c = Callee(t["fn"])
        last = c.path.split("::")[-1]
        lits = []
        for a in t.get("args", []):
            o = R.origin(body, a, carriers=dict(R.CARRIERS))
            if o[0] == "const" and "str" in o[1]:
                lits.append(o[1]["str"])
        if last in ("eq", "ne") and "svg" in lits:
            seen_eq = True
        if last in ("get_attr", "has_attr", "contains_key", "get") and "xmlns" in lits:
            seen_ns = True
    guarded = any(body.term(a)["k"] == "switch" for (a, x) in D.dominating_edges(body, site_bb))
    return seen_eq and seen_ns and guarded


def stable_sort(prog, chk):
    ro = prog.body("svgdx::types::AttrMap::reorder")
    sorts = ro.call_sites(lambda c: "sort" in c.path.split("::")[-1])
    ok = len(sorts) == 1 and sorts[0][2].path.split("::")[-1] in ("sort_by_key", "sort_by", "sort_by_cached_key")
    chk.ob(ok, "A15.stable-sort", "AttrMap::reorder", ro.where(), "attribute order is canonicalised with a stable sort (equal-priority attributes keep their input order)", f"AttrMap::reorder uses {[s[2].path.split('::')[-1] for s in sorts]} (unstable: attribute order of equal-priority keys may change between passes)")


def normalisations(prog, chk):
    """what the pass-through path does to values besides re-escaping (each is a deviation from the strict statement)"""
    # (i) every Start/Empty event is converted through SvgElement (class list split + de-duplication)
    conv = prog.body("<svgdx::events::OutputEvent as std::convert::From<svgdx::events::InputEvent>>::from")
    via_el = conv.call_sites(lambda c: c.decl_path == "std::convert::TryFrom::try_from" and "SvgElement" in c.inst)
    ins = prog.body("svgdx::types::ClassList::insert")
    dedup = bool(ins.call_sites(lambda c: c.path.endswith("::contains")))
    if via_el and dedup:
        chk.bad(
            "A16.passthrough-normalised",
            "class-list",
            conv.where(via_el[0][0]),
            "pass-through converts every start tag through SvgElement, whose class list drops duplicate class tokens and is re-emitted as the last attribute: `class=\"b a b\"` becomes `class=\"b a\"` (attribute value changed)",
        )
    # (ii) write_to trims trailing blanks of every text line for all documents
    blr = prog.body("svgdx::events::OutputList::blank_line_remover")
    if blr.call_sites(lambda c: c.path.endswith("<impl str>::trim_end")):
        chk.bad(
            "A16.passthrough-normalised",
            "text-trailing-blanks",
            blr.where(),
            "write_to passes all character data (also of real SVG) through blank_line_remover, which trims trailing blanks of every line that is followed by a newline: character data `one   \\ntwo` becomes `one\\ntwo`",
        )


def every_line_is_kept(prog, chk):
    """the text normaliser of the writer goes through character data line by line; whatever it does *to* a line (the
    trailing-blank trim is known finding F24), every line it takes off the input ends up in the result: each pass of
    its loop that cuts a line off passes the `push('\\n')` that terminates it - no `continue`, no counter that skips.
    A dropped line is character data of a pass-through document that is not in the output"""
    blr = prog.maybe_body("svgdx::events::OutputList::blank_line_remover")
    if blr is None:
        chk.undecided("A16.every-line-kept", "blank_line_remover", "src/events.rs", "the writer's text normaliser is not there under this name")
        return
    chk.touch(blr)
    cuts = blr.call_sites(lambda c: c.path.split("::")[-1] in ("split_at", "split_once", "split_at_checked") and "str" in c.path)
    pushes = {bb for (bb, t, c) in blr.call_sites(lambda c: c.path in ("std::string::String::push", "std::string::String::push_str"))}
    n = 0
    for (cb, ct, cc) in cuts:
        lp = R.loop_containing(blr, cb)
        if lp is None:
            continue
        n += 1
        nl = {bb for (bb, t, c) in blr.call_sites(lambda c: c.path == "std::string::String::push") if bb in lp[1]}
        if not nl:
            chk.undecided("A16.every-line-kept", "blank_line_remover", blr.where(cb, ct.get("line")), "how a line is terminated in the result (no String::push in the loop) is not read here")
            continue
        skip = lp[0] in blr.reach([ct["t"]], avoid=nl) if ct.get("t") is not None else False
        chk.ob(not skip, "A16.every-line-kept", "blank_line_remover", blr.where(cb, ct.get("line")), "every line cut off the text is written to the result (each such pass of the loop passes push('\\n'))", "a pass of blank_line_remover's loop cuts a line off the text and goes on to the next without writing its line end: lines of character data are dropped (a run of blank lines is shortened) - also in a document that is to pass through as it is")
    if not n:
        chk.undecided("A16.every-line-kept", "blank_line_remover", blr.where(), "blank_line_remover does not cut lines off with split_at / split_once in a loop")


def reader_rejects_xml_errors_only(prog, chk):
    """reading the document (InputList::from_reader) fails for what the XML reader reports - a malformed tag, a
    duplicate attribute, bytes that are not UTF-8 - and for nothing else: it does not run the *element conversion*
    (SvgElement::try_from, which also unescapes every attribute value and fails on a reference to an entity declared
    in the DOCTYPE) to decide whether a tag is acceptable.  Such a document is well-formed and passes through"""
    from sa import errfate
    b = prog.body("svgdx::events::InputList::from_reader")
    chk.touch(b)
    n = 0
    for s_ in errfate.result_fates(prog, b):
        if "svgdx::errors::SvgdxError" not in s_.dty or str(s_.fate).startswith("dropped"):
            continue
        n += 1
        conv = "SvgElement" in s_.callee.inst and s_.callee.path.split("::")[-1] in ("try_from", "try_into", "from")
        key = f"from_reader:{s_.callee.path.split('::')[-1]}"
        if conv:
            chk.bad("A16.reader-verdict", key, b.where(s_.bb, s_.line), f"from_reader judges a tag by converting it to an SvgElement ({s_.callee.inst[:90]}) and fails when the conversion does: that also refuses attribute values the XML reader accepts (an entity reference it cannot resolve) - a well-formed document, namespaced <svg> included, is rejected instead of passed through")
        else:
            chk.undecided("A16.reader-verdict", key, b.where(s_.bb, s_.line), f"from_reader lets a verdict of {s_.callee.path} ({s_.fate}) decide: whether that refuses only what is not well-formed XML is not read here")
    chk.ok("A16.reader-verdict", "scan", b.where(), f"{n} library-level verdict(s) used while reading the document")


def real_svg_scan(prog, chk):
    """is_real_svg looks at every event up to the first element: its loop runs over InputList::iter() itself, not over
    a truncated / filtered view (a prolog of any length must not hide the namespaced root)"""
    b = prog.body("svgdx::transform::is_real_svg")
    chk.touch(b)
    its = b.call_sites(lambda c: c.decl_path == "std::iter::IntoIterator::into_iter")
    if len(its) != 1:
        chk.anchor_missing("A13.real-svg-scan", f"is_real_svg: expected one loop, found {len(its)} into_iter calls")
        return
    bb, t, c = its[0]
    o = R.origin(b, t["args"][0], carriers={})
    src = Callee(o[2]["fn"]).path if o[0] == "call" and "fn" in o[2] else None
    chk.ob(src == "svgdx::events::InputList::iter", "A13.real-svg-scan", "is_real_svg:iterator", b.where(bb, t.get("line")), "the real-SVG test scans the event list itself (InputList::iter), up to the first element", f"the real-SVG test iterates over {src or o[0]} instead of the whole event list: a document whose root <svg> comes after a longer prolog (comments, PIs) is not recognised as real SVG, so its own output is re-styled on the second pass")


def reader_defaults(prog, chk):
    """the XML reader runs with quick-xml's default configuration: what is accepted on input is exactly what the writer
    can produce (stricter settings make the transform reject its own output / valid plain SVG)"""
    b = prog.body("svgdx::events::InputList::from_reader")
    chk.touch(b)
    cfg = [(bb, t, c) for (bb, t, c) in b.call_sites(lambda c: c.path.split("::")[-1] in ("config_mut", "expand_empty_elements", "trim_text", "check_end_names", "check_comments", "trim_markup_names_in_closing_tags") and "quick_xml" in c.path)]
    rd = b.call_sites(lambda c: "quick_xml" in c.path and c.path.split("::")[-1] in ("from_reader", "read_event_into"))
    chk.floor("A10.reader-config", len(rd), 2, "quick-xml reader construction / read call in from_reader")
    chk.ob(not cfg, "A10.reader-config", "from_reader", b.where(cfg[0][0], cfg[0][1].get("line")) if cfg else b.where(), "the reader configuration is quick-xml's default", f"from_reader changes the reader configuration ({sorted({c.path.split('::')[-1] for (_, _, c) in cfg})}): input acceptance no longer matches what the writer emits (e.g. generated comments containing `--`), so re-processing svgdx output can fail")


PASSTHROUGH_STR_OK = {
    ("svgdx::element::SvgElement::new", "split"): (1, "class attribute -> class list, split on single blanks (the list normalisation itself is known finding F23)"),
    ("svgdx::events::<impl std::convert::From<svgdx::events::OutputEvent> for quick_xml::events::Event<'a>>::from", "replace"): (1, "CDATA: `]]>` is split across two sections (F14)"),
    ("svgdx::events::<impl svgdx::element::SvgElement>::into_bytesstart::escape_attr", "replace"): (3, "attribute values: & < \" are escaped once on output (F12)"),
    ("svgdx::events::InputList::from_reader", "rsplit_once"): (1, "indentation of the element = text after the last newline of the preceding text event (metadata only)"),
    ("svgdx::events::InputList::from_reader", "trim_end_matches"): (1, "indentation detection (metadata only)"),
    ("svgdx::events::OutputList::blank_line_remover", "trim_end"): (1, "trailing blanks of text lines are trimmed on output (known finding F24)"),
    ("svgdx::types::ClassList::replace", "split_whitespace"): (1, "class replacement helper of the svgdx pipeline, not on the pass-through path"),
}


def passthrough_str_ops(prog, chk):
    """reader, element construction, class list and writer apply no character-dropping / character-altering string
    operation beyond the reviewed ones (each existing one is either an escape, metadata, or a listed finding)"""
    import collections
    from props.C01 import strip_closures
    from props.C19 import TEXT_ALTERING

    seen = collections.Counter()
    sites = {}
    spliced_once = set()
    n = 0
    for b in prog.bodies.values():
        if not (b.path.startswith("svgdx::events::") or b.path.startswith("svgdx::element::SvgElement::new") or b.path.startswith("svgdx::types::ClassList") or b.path.startswith("svgdx::types::AttrMap") or b.path.startswith("svgdx::types::<impl")):
            continue
        for (bb, t, c) in b.call_sites(lambda c: c.path.split("::")[-1] in TEXT_ALTERING and ("str" in c.path.lower() or "string" in c.path.lower())):
            k = (strip_closures(b.path), c.path.split("::")[-1])
            src_ = b.blocks[bb].get("src")
            if src_ is not None:
                if (tuple(src_), k[1]) in spliced_once:
                    continue  # the same helper block spliced in at another call site
                spliced_once.add((tuple(src_), k[1]))
            seen[k[1]] += 1
            sites.setdefault(k[1], []).append((b, bb, t))
            n += 1
    # judged per operation over the whole scope (a helper spliced into its caller, code moved between two functions of
    # the scope, or an escaper hoisted to module level keep the totals): one more application of an *altering* operation
    # than the reviewed total is a violation; slicing / splitting operations that are not in the list are UNDECIDED
    from props import strops as _so

    allowed = collections.Counter()
    for (fn_, op_), (cnt_, _why) in PASSTHROUGH_STR_OK.items():
        allowed[op_] += cnt_
    for op_ in sorted(seen):
        first = sites[op_][0]
        where_ = first[0].where(first[1], first[2].get("line"))
        if seen[op_] <= allowed[op_]:
            chk.ok("A14.passthrough-str-ops", op_, where_, f"str::{op_}() applied {seen[op_]} time(s) (reviewed: {allowed[op_]})", by="table")
        elif op_ not in _so.ALTERING_OPS:
            chk.undecided("A14.passthrough-str-ops", op_, where_, f"str::{op_}() (a slicing / splitting operation) is applied {seen[op_]} time(s) on the reader / element / writer path, reviewed {allowed[op_]}; whether characters are lost depends on what is done with the pieces")
        else:
            extra = [x[0].where(x[1], x[2].get("line")) for x in sites[op_]]
            chk.bad("A14.passthrough-str-ops", op_, where_, f"str::{op_}() is applied {seen[op_]} time(s) on the reader / element / writer path (reviewed: {allowed[op_]}; sites {extra}): one more character-altering operation than reviewed - attribute values, class lists or character data can be altered on their way")
    chk.floor("A14.passthrough-str-ops", n, 9, "character-altering string operation on the reader/writer path")


def top_level_predicate(prog, chk):
    """`at_top_level()` - the gate of the whole-document real-SVG shortcut - means `no element has been entered`:
    it compares the nesting counter with 0 (the element stack is not pushed by plain containers)"""
    b = prog.body("svgdx::context::TransformerContext::at_top_level")
    chk.touch(b)
    ok = False
    for x, i, st in b.all_stmts():
        rv = st.get("rv")
        if rv and rv.get("k") == "binop" and rv.get("op") == "Eq":
            sides = [rv["a"], rv["b"]]
            fields = [op_place(sd) for sd in sides]
            consts = [op_const(sd) for sd in sides]
            from props.C17 import depth_counter_field

            dfield = depth_counter_field(prog)
            def _is_counter(sd):
                pl_ = op_place(sd)
                if pl_ is None:
                    return False
                return dfield is not None and R.self_path(b, sd) == dfield
            reads_depth = any(_is_counter(sd) for sd in sides) or any(f is not None and f[1] and f[1][-1] == ".current_depth" for f in fields) or any(R.origin(b, sd, carriers={})[0] == "field" and R.origin(b, sd, carriers={})[1][1][-1] == ".current_depth" for sd in sides if op_place(sd) is not None)
            zero = any(k is not None and k.get("int") == 0 for k in consts)
            ok = ok or (reads_depth and zero)
    others = [c.path for (bb, t, c) in b.call_sites(lambda c: True)]
    chk.ob(ok and not others, "A7.top-level", "at_top_level", b.where(), "at_top_level() is `current_depth == 0`", f"at_top_level() is not the test `current_depth == 0` (calls: {others}): content nested in plain containers can be taken for the document root, so a nested namespaced <svg> turns the whole document into pass-through (root without xmlns/version)")


def _only_from_param(b, local, param, depth=8):
    """every definition of `local` is a move / Into::into / From::from conversion of the parameter `param`"""
    if local == param:
        return True
    if depth <= 0:
        return False
    defs = b.defs_of(local)
    if not defs:
        return False
    for d in defs:
        node = d[2]
        if d[1] == R.TERM:
            if "fn" not in node or Callee(node["fn"]).decl_path not in ("std::convert::Into::into", "std::convert::From::from", "std::string::ToString::to_string", "std::borrow::ToOwned::to_owned"):
                return False
            a = op_place(node["args"][0]) if node["args"] else None
            if a is None or [z for z in a[1] if z != "*"] or not _only_from_param(b, a[0], param, depth - 1):
                return False
        else:
            if node.get("k") not in ("use", "ref"):
                return False
            a = op_place(node.get("op")) if node.get("k") == "use" else P(node["place"])
            if a is None or [z for z in a[1] if z != "*"] or not _only_from_param(b, a[0], param, depth - 1):
                return False
    return True


GRAPHICS = {"circle", "ellipse", "image", "line", "path", "polygon", "polyline", "rect", "text", "use", "reuse"}


def graphics_vocabulary(prog, chk):
    """the element names handled as graphics elements (positioned shapes whose empty content means "empty element") are
    the SVG 1.1 graphics elements plus svgdx's `reuse` - not containers such as a nested `svg`, whose content (and end
    tag) must survive"""
    b = prog.maybe_body("svgdx::element::SvgElement::is_graphics_element")
    if b is None:
        chk.anchor_missing("A15.graphics-vocabulary", "SvgElement::is_graphics_element not found")
        return
    chk.touch(b)
    h = prog.hir[b.id]
    lits = set()
    for m, arms in hirq.str_matches(h):
        for ls, a in arms:
            for l in ls:
                if l != hirq.WILD:
                    lits.add(l)
    chk.ob(lits == GRAPHICS, "A15.graphics-vocabulary", "is_graphics_element", b.where(), f"is_graphics_element() names exactly {sorted(GRAPHICS)}", f"is_graphics_element() names {sorted(lits)}: extra {sorted(lits - GRAPHICS)}, missing {sorted(GRAPHICS - lits)} - an extra name is a container treated as a shape (content and end tag can be dropped, also inside a namespaced <svg> that must pass through), a missing one is a shape treated as a container (not positioned)")


def attrmap_keys_verbatim(prog, chk):
    """AttrMap stores an attribute under the name it is given: the key of the (key, value) pair that insert() stores -
    and the key insert_first() hands to insert() - is the converted parameter, never a rewritten or substituted name"""
    n = 0
    for name in ("insert", "insert_first"):
        b = prog.maybe_body(f"svgdx::types::AttrMap::{name}")
        if b is None:
            chk.anchor_missing("A16.attr-key-verbatim", f"AttrMap::{name} not found")
            continue
        chk.touch(b)
        sites = []
        for x, i, st in b.all_stmts():
            rv = st.get("rv") or {}
            if rv.get("k") == "aggr" and rv.get("ak") == "tuple" and len(rv.get("ops", [])) == 2:
                sites.append((x, st.get("line"), op_place(rv["ops"][0])))
        for (x, t, c) in b.call_sites(lambda c: c.path in ("svgdx::types::AttrMap::insert", "svgdx::types::AttrMap::insert_first")):
            if len(t["args"]) >= 2:
                sites.append((x, t.get("line"), op_place(t["args"][1])))
        for (x, line, kp) in sites:
            n += 1
            ok = kp is not None and not kp[1] and _only_from_param(b, kp[0], 2)
            chk.ob(ok, "A16.attr-key-verbatim", f"AttrMap::{name}", b.where(x, line), f"AttrMap::{name} stores the pair under the name it was given", f"AttrMap::{name} stores the pair under a name that is not (only) the one it was given: an attribute comes out renamed (e.g. xlink:href as href) or merged with another one")
    chk.floor("A16.attr-key-verbatim", n, 2, "(key, value) stored / handed on by AttrMap::insert / insert_first")


def writer_is_read_only(prog, chk):
    """writing the output does not edit it: nothing reachable from OutputList::write_to calls a mutator of an element's
    attribute map or class list (what is written is what the transform produced - for a real SVG, what was read)"""
    wt = prog.maybe_body("svgdx::events::OutputList::write_to")
    if wt is None:
        chk.anchor_missing("A16.writer-read-only", "OutputList::write_to not found")
        return
    chk.touch(wt)
    reach, work = {wt.id}, [wt.id]
    while work:
        a = work.pop()
        for t in prog.edges.get(a, ()):
            if t not in reach and prog.bodies[t].unit == "svgdx-lib":
                reach.add(t)
                work.append(t)
    MUT = ("svgdx::types::AttrMap::", "svgdx::types::ClassList::", "svgdx::element::SvgElement::")
    bad = []
    for bid in sorted(reach):
        b = prog.bodies[bid]
        if not b.path.startswith(MUT) or "{closure" in b.path:
            continue
        ty1 = b.local_ty(1) or ""
        if ty1.startswith("&mut ") and any(k in ty1 for k in ("AttrMap", "ClassList", "SvgElement")):
            bad.append(b.short)
    chk.ob(not bad, "A16.writer-read-only", "write_to", wt.where(), f"nothing reachable from write_to ({len(reach)} functions) takes an element, attribute map or class list by &mut", f"the writer edits what it writes: {', '.join(sorted(bad)[:6])} reachable from OutputList::write_to - attributes can be dropped or rewritten for *every* element written, including a real SVG document that must pass through verbatim")


def qualified_names(prog, chk):
    """element names are the qualified names on both tags: no use of quick-xml's local_name() (a prefixed
    `<dc:title>` must not lose its prefix on the start tag while the end tag keeps it)"""
    uses = []
    names = 0
    for b in prog.bodies.values():
        if b.unit != "svgdx-lib":
            continue
        for (bb, t, c) in b.call_sites(lambda c: "quick_xml" in c.path and c.path.split("::")[-1] in ("local_name", "name", "prefix", "resolve_element")):
            if c.path.split("::")[-1] == "name":
                names += 1
            else:
                uses.append((b, bb, t, c))
    chk.floor("A16.qualified-names", names, 2, "quick-xml name() call (start and end tags)")
    for (b, bb, t, c) in uses:
        chk.bad("A16.qualified-names", f"{b.short}:{c.path.split('::')[-1]}", b.where(bb, t.get("line")), f"{b.short} takes an element name with {c.path.split('::')[-1]}(): start/empty tags and end tags no longer spell prefixed names alike")
    if not uses:
        chk.ok("A16.qualified-names", "scan", "src/events.rs", f"{names} name() calls, no local_name()/prefix()")


def passthrough_one_to_one(prog, chk):
    """real SVG is handed to the writer by converting the input events one by one (`From<InputList> for OutputList`):
    the list conversion builds no event of its own and looks at no neighbour - it cannot merge `<g></g>` into `<g/>`,
    drop an event or add one"""
    b = prog.maybe_body("<svgdx::events::OutputList as std::convert::From<svgdx::events::InputList>>::from")
    if b is None:
        chk.anchor_missing("A16.passthrough-one-to-one", "impl From<InputList> for OutputList not found")
        return
    chk.touch(b)
    scope = [b] + list(prog.closures_of(b))
    built = [(bd, x) for bd in scope for x, i, s_ in bd.all_stmts() if s_.get("rv", {}).get("k") == "aggr" and s_["rv"].get("adt") == "svgdx::events::OutputEvent"]
    peeks = [(bd, x) for bd in scope for (x, t, c) in bd.call_sites(lambda c: c.path.split("::")[-1] in ("peek", "peek_mut", "next_if", "windows", "tuple_windows", "chunks", "zip", "skip", "step_by", "filter", "filter_map", "skip_while", "take_while", "dedup_by"))]
    nexts = [(bd, x) for bd in scope for (x, t, c) in bd.call_sites(lambda c: c.decl_path == "std::iter::Iterator::next")]
    why = []
    if built:
        why.append(f"it builds OutputEvent values of its own ({built[0][0].where(built[0][1])})")
    if peeks:
        why.append(f"it looks ahead / drops / pairs events ({peeks[0][0].where(peeks[0][1])})")
    if len(nexts) > 1:
        why.append(f"it takes events from the input at {len(nexts)} places")
    chk.ob(not why, "A16.passthrough-one-to-one", "From<InputList> for OutputList", b.where(), "the pass-through conversion maps every input event to the one output event its own conversion gives", "the conversion of the input event list into the output list is no longer one event for one event: " + "; ".join(why) + " - a passed-through document can come out with tags merged (`<text></text>` as `<text/>`), dropped or added")


def inner_events_guard(prog, chk):
    """SvgElement::inner_events: an element with separate tags has content `events[start+1..end]` whenever end > start
    (an adjacent pair gives the empty list, not `None`): the guard compares the two ends of the range as they are"""
    b = prog.body("svgdx::element::SvgElement::inner_events")
    chk.touch(b)
    found = None
    for bd in [b] + list(prog.closures_of(b)):
        for x, i, st in bd.all_stmts():
            rv = st.get("rv")
            if rv and rv.get("k") == "binop" and rv.get("op") in ("Gt", "Lt", "Ge", "Le", "Ne") and rv.get("aty") == "usize":
                oa, ob = R.origin(bd, rv["a"], carriers={}), R.origin(bd, rv["b"], carriers={})
                found = (rv["op"], oa[0], ob[0])
        # the same test on references (`|(start, end)| end > start` in a filter closure) is a call of PartialOrd
        for (x, t, c) in bd.call_sites(lambda c: c.decl_path in ("std::cmp::PartialOrd::gt", "std::cmp::PartialOrd::lt", "std::cmp::PartialOrd::ge", "std::cmp::PartialOrd::le") and "usize" in c.inst):
            oa, ob = R.origin(bd, t["args"][0], carriers={}), R.origin(bd, t["args"][1], carriers={})
            found = (c.decl_path.split("::")[-1].capitalize(), oa[0], ob[0])
    if found is None:
        chk.undecided("A7.inner-events", "inner_events", b.where(), "no comparison of the two ends of the element's event range is found in inner_events(): how it tells an element with content from an empty one is not read here")
        return
    ok = found is not None and found[0] in ("Gt", "Lt") and found[1] != "rv" and found[2] != "rv" and found[1] != "const" and found[2] != "const"
    chk.ob(ok, "A7.inner-events", "inner_events", b.where(), "inner_events() yields the (possibly empty) content list whenever end > start", f"the range guard of inner_events() is not the plain `end > start` (found {found}): an element whose tags are adjacent (`<svg xmlns=..></svg>`) loses its content list and is dropped by Container")


def no_precheck(prog, chk):
    """Transformer::transform reads, processes and post-processes: it raises no error of its own (a check placed ahead of
    process_events would also hit real SVG, which must pass through under every configuration)"""
    b = prog.body("svgdx::transform::Transformer::transform")
    chk.touch(b)
    own = [st["rv"].get("variant") for x, i, st in b.all_stmts() if st.get("rv", {}).get("k") == "aggr" and st["rv"].get("adt") == "svgdx::errors::SvgdxError"]
    calls = sorted({c.path.split("::")[-1] for (bb, t, c) in b.call_sites(lambda c: c.path.startswith("svgdx::"))})
    chk.ob(not own and {"from_reader", "process_events", "postprocess"} <= set(calls), "A13.no-precheck", "Transformer::transform", b.where(), f"transform() only chains {calls}", f"Transformer::transform constructs an error itself ({own}): a document-level check ahead of process_events also rejects real SVG input (and svgdx's own output on re-processing) under configurations where the pass-through would have succeeded")
