"""C03 Real SVG (namespaced root) passes through with an identical XML infoset (mechanisms)."""
from sa import rules as R
from sa.prog import P, Callee, op_place, op_const, const_str
from props import xmlsink as X

EXPLANATION = (
    "Decides the mechanisms without which pass-through cannot hold: (1) bypass dominance - in process_events the real-SVG "
    "edge (tested only at the top level) reaches nothing but `input.into()` and the return; real_svg is written only there; in "
    "postprocess the real_svg edge reaches only write_to; in the element dispatcher / Container the namespaced-<svg> exit "
    "returns the raw input events and is reached before any attribute evaluation; is_real_svg skips every non-element event; "
    "(2) escape balance per channel between reader and writer (shared with C02); (3) attribute order is normalised by a "
    "stable sort only. The normalisations applied on the pass-through path (class list, trailing blanks of text lines) are "
    "enumerated as findings. Undecided: infoset equality for all documents (compares two executions; quick-xml reader and "
    "writer being inverse on every event kind is trusted)."
)
TRUSTED = ["quick-xml reader/writer are inverse on the event kinds passed through as Event (PI, doctype, declaration)"]
ASSUMPTIONS = []

CTX = "svgdx::context::TransformerContext"
EL = "svgdx::element::SvgElement"
PE = "svgdx::transform::process_events"
PROCESSING = ("svgdx::events::tagify_events", "svgdx::transform::process_tags", EL + "::eval_attributes", EL + "::resolve_position", EL + "::transmute", EL + "::element_events")


def run(prog, chk):
    bypass(prog, chk)
    X.check_readers(prog, chk)
    X.text_bypass(prog, chk)
    stable_sort(prog, chk)
    normalisations(prog, chk)


def _bool_call_gate(body, callee_pred):
    """(call_bb, switch_bb, true_target, false_target) for `if f(..)` where f matches"""
    out = []
    for (bb, t, c) in body.call_sites(callee_pred):
        from props.C02 import _bool_switch
        bs = _bool_switch(body, t["t"], t["dest"][0])
        if bs:
            tt, ft, sb = bs
            out.append((bb, sb, tt, ft))
    return out


def bypass(prog, chk):
    pe = prog.body(PE)
    chk.touch(pe)
    gates = _bool_call_gate(pe, R.path_is("svgdx::transform::is_real_svg"))
    chk.floor("A13.bypass", len(gates), 1, "is_real_svg test in process_events")
    for (cb, sb, tt, ft) in gates:
        reg = pe.reach([tt], avoid=[ft])
        calls = sorted({Callee(pe.term(b)["fn"]).path for b in reg if pe.term(b)["k"] == "call" and "fn" in pe.term(b) and Callee(pe.term(b)["fn"]).local})
        proc = [c for c in calls if c in PROCESSING or "generate_events" in c]
        only_into = all(("From<svgdx::events::InputList>" in c or "as std::convert::From" in c or "Into" in c or c.endswith("::into")) for c in calls)
        chk.ob(
            not proc and any(pe.term(b)["k"] == "ret" for b in reg),
            "A13.bypass",
            "process_events:real-svg-edge",
            pe.where(sb),
            f"on the real-SVG edge process_events only converts the input events and returns (local calls: {[c.split('::')[-1] for c in calls]})",
            f"processing steps are reachable for real SVG: {proc}",
        )
        # the test is made only at the top level
        tl = _bool_call_gate(pe, lambda c: c.path == CTX + "::at_top_level")
        ok = bool(tl) and R.control_dependent_only_via(pe, cb, (tl[0][1], tl[0][2]))
        chk.ob(
            ok,
            "A13.bypass",
            "process_events:top-level-only",
            pe.where(cb),
            "the real-SVG shortcut (and the real_svg flag) applies only at the top level of the document; nested namespaced <svg> elements go through the dispatcher",
            "process_events applies the real-SVG shortcut at every nesting level: a namespaced <svg> as first child of an svgdx root passes all its siblings through unprocessed and marks the whole document as real SVG",
        )
    w = {k for k in R.field_writers(prog, "real_svg", CTX) if not k.endswith("::default")}
    chk.ob(w == {PE}, "A10.real-svg-writers", "real_svg", pe.where(), "real_svg is written only by process_events", f"real_svg writers: {sorted(w)}")
    # postprocess: real_svg edge reaches only write_to
    pp = prog.body("svgdx::transform::Transformer::postprocess")
    chk.touch(pp)
    gate = None
    for (bb, idx, node) in R.place_reads(pp, (".real_svg",)):
        if idx != R.TERM and "lhs" in node and not node["lhs"][1]:
            for (b, i, n, how, _c) in R.forward_value_uses(pp, node["lhs"][0]):
                if i == R.TERM and n["k"] == "switch":
                    gate = (b, n)
        elif idx == R.TERM and node["k"] == "switch":
            gate = (bb, node)
    if gate is None:
        chk.bad("A13.bypass", "postprocess:real-svg-edge", pp.where(), "postprocess does not branch on real_svg")
    else:
        sb, st = gate
        tt, ft = R.switch_targets_bool(st)
        reg = pp.reach([tt], avoid=[ft])
        calls = sorted({Callee(pp.term(b)["fn"]).path for b in reg if pp.term(b)["k"] == "call" and "fn" in pp.term(b) and Callee(pp.term(b)["fn"]).local})
        extra = [c for c in calls if c not in ("svgdx::events::OutputList::write_to",)]
        # the real edge must be the first thing decided: nothing written before it
        before = sorted({Callee(pp.term(b)["fn"]).path for b in pp.reachable if b != sb and pp.term(b)["k"] == "call" and "fn" in pp.term(b) and Callee(pp.term(b)["fn"]).local and sb in pp.reach([b])})
        chk.ob(
            not extra and not before and any(pp.term(b)["k"] == "ret" for b in reg) and ft not in reg,
            "A13.bypass",
            "postprocess:real-svg-edge",
            pp.where(sb),
            "for real SVG postprocess only writes the events and returns (no root synthesis, no style injection, no debug comments)",
            f"post-processing steps are reachable for real SVG: {extra or before or 'falls through to the svgdx path'}",
        )
    # nested namespaced svg: raw events, before any evaluation
    n_exit = 0
    for fn in ("<svgdx::transform::Container as svgdx::transform::EventGen>::generate_events", "<svgdx::element::SvgElement as svgdx::transform::EventGen>::generate_events"):
        b = prog.body(fn)
        chk.touch(b)
        for (bb, t, c) in b.call_sites(R.path_is(EL + "::all_events")):
            n_exit += 1
            ev = {x for (x, _, _) in b.call_sites(lambda c: c.path in PROCESSING or c.path == PE or c.path.endswith("AttrMap::insert") or c.path == EL + "::set_attr")}
            pre = [x for x in ev if bb in b.reach([x])]
            # guarded by name == "svg" and xmlns present
            conds = _svg_xmlns_guard(b, bb)
            chk.ob(
                not pre and conds,
                "A13.bypass",
                f"{b.short}:nested-svg",
                b.where(bb, t.get("line")),
                "a namespaced <svg> element returns its raw input events (all_events) before any attribute evaluation or processing",
                f"the nested namespaced <svg> exit is reached after evaluation/processing steps ({len(pre)}) or is not guarded by name == svg && xmlns present ({conds})",
            )
    chk.floor("A13.bypass.nested", n_exit, 2, "nested namespaced-svg pass-through exit (Container, empty-element form)")
    # is_real_svg skips non-element events
    irs = prog.body("svgdx::transform::is_real_svg")
    chk.touch(irs)
    tf = irs.call_sites(lambda c: c.decl_path == "std::convert::TryFrom::try_from")
    ok = False
    if tf and irs.loops:
        fb, ft_, fc = tf[0]
        sw = R.find_switch_on_discr(irs, ft_["t"], ft_["dest"][0])
        if sw:
            sb, st = sw
            ok_t = [tgt for v, tgt in st["vals"] if v == 0]
            nx = irs.call_sites(lambda c: c.decl_path == "std::iter::Iterator::next")
            some_t = None
            if nx:
                s2 = R.find_switch_on_discr(irs, nx[0][1]["t"], nx[0][1]["dest"][0])
                if s2:
                    some_t = [tgt for v, tgt in s2[1]["vals"] if v == 1]
            falses = [b for b, i, s in irs.all_stmts() if "lhs" in s and s["lhs"][0] == 0 and not s["lhs"][1] and (op_const(s["rv"].get("op")) or {}).get("bool") is False and some_t and irs.dominates(some_t[0], b)]
            ok = bool(ok_t) and bool(some_t) and all(irs.dominates(ok_t[0], b) for b in falses)
    chk.ob(ok, "A13.bypass", "is_real_svg:skips-non-elements", irs.where(), "is_real_svg decides on the first *element*; every other event (declaration, doctype, PI, comment, text) is skipped", "is_real_svg can answer `false` on a non-element event before the root (e.g. a DOCTYPE): such real SVG documents would be processed as svgdx")


def _in_loop_region(body, blocks, b):
    # a `return false` reached from inside the loop body (not the fall-through after the loop)
    return any(p in blocks for p in body.pred[b]) or b in blocks


def _svg_xmlns_guard(body, site_bb):
    from sa import discharge as D
    conds = D.dom_conditions(body, site_bb)
    has_eq = any(kind == "call" and payload[0] == "eq" and truth for kind, payload, truth in conds)
    has_xmlns = any(kind == "call" and payload[0] in ("is_some",) and truth for kind, payload, truth in conds)
    return has_eq and has_xmlns


def stable_sort(prog, chk):
    ro = prog.body("svgdx::types::AttrMap::reorder")
    sorts = ro.call_sites(lambda c: "sort" in c.path.split("::")[-1])
    ok = len(sorts) == 1 and sorts[0][2].path.split("::")[-1] in ("sort_by_key", "sort_by", "sort_by_cached_key")
    chk.ob(ok, "A15.stable-sort", "AttrMap::reorder", ro.where(), "attribute order is canonicalised with a stable sort (equal-priority attributes keep their input order)", f"AttrMap::reorder uses {[s[2].path.split('::')[-1] for s in sorts]} (unstable: attribute order of equal-priority keys may change between passes)")


def normalisations(prog, chk):
    """what the pass-through path does to values besides re-escaping (each is a deviation from the strict statement)"""
    # (i) every Start/Empty event is converted through SvgElement (class list split + de-duplication)
    conv = prog.body("<svgdx::events::OutputEvent as std::convert::From<svgdx::events::InputEvent>>::from")
    via_el = conv.call_sites(lambda c: c.decl_path == "std::convert::TryFrom::try_from" and "SvgElement" in c.inst)
    ins = prog.body("svgdx::types::ClassList::insert")
    dedup = bool(ins.call_sites(lambda c: c.path.endswith("::contains")))
    if via_el and dedup:
        chk.bad(
            "A16.passthrough-normalised",
            "class-list",
            conv.where(via_el[0][0]),
            "pass-through converts every start tag through SvgElement, whose class list drops duplicate class tokens and is re-emitted as the last attribute: `class=\"b a b\"` becomes `class=\"b a\"` (attribute value changed)",
        )
    # (ii) write_to trims trailing blanks of every text line for all documents
    blr = prog.body("svgdx::events::OutputList::blank_line_remover")
    if blr.call_sites(lambda c: c.path.endswith("<impl str>::trim_end")):
        chk.bad(
            "A16.passthrough-normalised",
            "text-trailing-blanks",
            blr.where(),
            "write_to passes all character data (also of real SVG) through blank_line_remover, which trims trailing blanks of every line that is followed by a newline: character data `one   \\ntwo` becomes `one\\ntwo`",
        )
