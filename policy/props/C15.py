"""C15 Variable scoping is lexical and unaffected by evaluation order (structural core)."""
import re

from sa import rules as R
from sa import hirq
from sa.prog import P, Callee, op_place

EXPLANATION = (
    "MIR analyses: (1) typestate pairing push_element/pop_element on every exit (including error exits, which the retry "
    "loop turns into normal control flow) of every function that opens a scope; the `inspect_err(|_| pop)` idiom closes "
    "exactly the Err successor of the consuming `?`; (2) who-may-write: scope_stack/element_stack are touched only by "
    "push_element/pop_element/ensure_scope, both stacks move together; Scope::vars is written only through "
    "ensure_scope() (the innermost scope); (3) parallel assignment: no path from a set_var call to an eval_attr call in "
    "VarElement; (4) lookup iterates the scope stack through rev() and returns at the first hit; (5) the scope is pushed "
    "before the content is processed. Undecided: textual `$name` substitution (string level)."
    " Also: scope variables are the unfiltered attribute map; reuse overrides are read from the evaluated element."
)
TRUSTED = ["Vec::push/pop, slice::last_mut, Iterator::rev semantics"]
ASSUMPTIONS = ["errors of an element are retried by process_tags, so an Err exit is an ordinary exit for scoping purposes"]

PUSH = "svgdx::context::TransformerContext::push_element"
POP = "svgdx::context::TransformerContext::pop_element"
ENSURE = "svgdx::context::TransformerContext::ensure_scope"
SETVAR = "svgdx::context::TransformerContext::set_var"
CTX = "svgdx::context::TransformerContext"
SCOPE = "svgdx::context::Scope"


def run(prog, chk):
    chk.rule(dispatch_by_name_only, prog, chk)
    from props import C16 as _C16
    chk.rule(_C16.if_element, prog, chk)  # a reference in `test` resolves to the binding current when the <if> is processed - each time it is processed
    chk.rule(scope_pairing, prog, chk, "A5.scope")
    chk.rule(stack_writers, prog, chk)
    chk.rule(innermost_writes, prog, chk)
    chk.rule(parallel_assignment, prog, chk)
    chk.rule(lookup_order, prog, chk)
    chk.rule(scope_vars_complete, prog, chk)
    chk.rule(reuse_overrides_evaluated, prog, chk)
    chk.rule(own_attributes_outside_scope, prog, chk)
    chk.rule(own_attributes_before_content, prog, chk)
    chk.rule(pops_follow_pushes, prog, chk)
    chk.rule(scan_continues_past_undefined, prog, chk)
    chk.rule(reuse_scope_encloses_instance, prog, chk)
    chk.rule(reuse_reads_evaluated_element, prog, chk)
    from props import strops
    chk.rule(strops.check_for, prog, chk, "C15")  # A14.str-ops: where a `$name` ends is a reviewed inventory of searches and character classes
    from props import C18
    chk.rule(C18.template_source, prog, chk)  # a <reuse> copies the element as written: what $k means inside the copy is decided at the reuse site, not at the definition
    chk.rule(_C16.loop_variable_names_verbatim, prog, chk)  # a loop assigns the variables its author named and no others (no defaulted `<var>_idx`)


def own_attributes_before_content(prog, chk):
    """an element's opening tag is evaluated where it stands - before its content is processed: in every element
    processor that both evaluates attributes (eval_attributes) and processes content (process_events), the evaluation
    dominates the content call.  Otherwise a <var> inside the content changes what the opening tag's `$name` means."""
    n = 0
    for b in prog.bodies.values():
        if b.unit != "svgdx-lib" or not b.path.endswith("generate_events"):
            continue
        ev = b.call_sites(R.path_endswith("SvgElement::eval_attributes"))
        pe = b.call_sites(lambda c: c.path == "svgdx::transform::process_events")
        if not ev or not pe:
            continue
        chk.touch(b)
        for (pb, pt, pc) in pe:
            n += 1
            ok = any(b.dominates(eb, pb) and eb != pb for (eb, et, ec) in ev)
            chk.ob(ok, "A13.own-attrs-before-content", b.short, b.where(pb, pt.get("line")), "the element's attributes are evaluated before its content is processed", f"{b.short} processes the element's content before (or without) evaluating the attributes of its opening tag: a variable assigned inside the content is seen by the opening tag that precedes it")
    chk.floor("A13.own-attrs-before-content", n, 3, "process_events call in an element processor that also evaluates attributes")


def reuse_scope_encloses_instance(prog, chk):
    """the variables a <reuse> binds are in scope for the whole processing of its instance - leaf or container: between
    push_element and the call that processes the instance (process_events on the re-wrapped events / generate_events on
    the instance element) no path passes a pop_element"""
    from props import C17

    ru = prog.body("<svgdx::reuse::ReuseElement as svgdx::transform::EventGen>::generate_events")
    chk.touch(ru)
    pushes = [bb for (bb, t, c) in ru.call_sites(R.path_is(PUSH))]
    pops = {bb for (bb, t, c) in ru.call_sites(R.path_is(POP))}
    sinks = [(bb, t, c) for (bb, t, c) in ru.call_sites(lambda c: c.path == "svgdx::transform::process_events" or (c.path.endswith("generate_events") and "SvgElement" in c.inst))]
    chk.floor("A5.scope-encloses", len(sinks), 2, "call that processes the reuse instance")
    if not pushes:
        chk.anchor_missing("A5.scope-encloses", "ReuseElement::generate_events: push_element not found")
        return
    for (sb, t, c) in sinks:
        # is there a path push -> pop -> sink ?
        early = [p_ for p_ in pops if p_ in ru.reach([ru.term(pushes[0])["t"]], avoid={sb}) and sb in ru.reach([ru.term(p_)["t"]] if ru.term(p_).get("t") is not None else [])]
        chk.ob(not early, "A5.scope-encloses", f"ReuseElement:{c.path.split('::')[-1]}", ru.where(sb, t.get("line")), "the reuse scope is still pushed when the instance is processed", f"the scope of the <reuse> can already be popped ({', '.join(ru.where(x) for x in early)}) when the instance is processed by {c.path.split('::')[-1]}(): what the instance looks up late (a second resolution pass of `$$sel`, a nested <reuse> that hands a binding on, a <var> target) no longer sees the reuse element's bindings - or leaks its own into the enclosing scope")


def reuse_reads_evaluated_element(prog, chk):
    """everything a <reuse> reads of itself (href, id, style, overrides ...) is read from the *evaluated* copy of the
    element: `self.0` is only cloned"""
    ru = prog.body("<svgdx::reuse::ReuseElement as svgdx::transform::EventGen>::generate_events")
    chk.touch(ru)
    raw = []
    n = 0
    for (bb, t, c) in ru.call_sites(lambda c: c.path.startswith("svgdx::element::SvgElement::") or c.decl_path == "std::clone::Clone::clone"):
        if not t["args"]:
            continue
        o = R.origin(ru, t["args"][0], carriers={})
        if (o[0] == "arg" and o[1] == 1) or (o[0] == "field" and o[1][0] == 1 and [str(z) for z in o[1][1] if z != "*"] == [".0"]):
            n += 1
            if c.decl_path != "std::clone::Clone::clone":
                raw.append((bb, t, c))
    chk.floor("A10.reuse-evaluated-attrs:self", n, 1, "use of self.0 in ReuseElement::generate_events")
    chk.ob(not raw, "A10.reuse-evaluated-attrs", "ReuseElement:self-only-cloned", ru.where(), "the unevaluated element (self.0) is only cloned; every attribute is read from the evaluated copy", f"ReuseElement::generate_events reads the unevaluated element directly ({', '.join(c.path.split('::')[-1] + ' at ' + ru.where(bb, t.get('line')) for bb, t, c in raw)}): an attribute written with a variable or expression (href=\"#shape$i\") is used as written instead of as evaluated")


def scan_continues_past_undefined(prog, chk):
    """"an undefined $name is left verbatim" - and the rest of the value is still substituted: the scan of eval_vars
    stops early only where the *text* ends (a search for `$`, `}` or the end of a name found nothing), never because a
    variable is undefined.  Every Option test in the scanning loop whose two outcomes differ in whether the scan goes on
    is the result of a str::find itself."""
    b = prog.body("svgdx::expression::eval_vars")
    chk.touch(b)
    loops = sorted(b.loops.items(), key=lambda kv: -len(kv[1]))
    if not loops:
        chk.anchor_missing("A13.scan-continues", "eval_vars: scanning loop not found")
        return
    h, blocks = loops[0]
    n = 0
    bad = []
    for x in sorted(blocks):
        t = b.term(x)
        if t["k"] != "switch":
            continue
        o = R.origin(b, t["op"], carriers={})
        if not (o[0] == "rv" and o[1].get("k") == "discr" and str(o[1].get("ty", "")).startswith("std::option::Option<")):
            continue
        succs = list(dict.fromkeys(b.succ[x]))
        if len(succs) != 2:
            continue
        goes_on = [h in b.reach([y], avoid=set()) and any(z in blocks for z in [y]) and h in (b.reach([y]) & (blocks | {h})) and _reaches_within(b, y, h, blocks) for y in succs]
        if goes_on[0] == goes_on[1]:
            continue
        n += 1
        src = R.origin(b, {"m": list(o[1]["place"])} if False else _place_op(o[1]["place"]), carriers={})
        name = Callee(src[2]["fn"]).path.split("::")[-1] if src[0] == "call" and "fn" in src[2] else src[0]
        if not (src[0] == "call" and "fn" in src[2] and name in ("find", "rfind", "strip_prefix", "strip_suffix", "split_once") and "str" in Callee(src[2]["fn"]).path):
            bad.append((b.where(x, t.get("line")), name))
    chk.floor("A13.scan-continues", n, 3, "Option test in eval_vars that decides whether the scan goes on")
    chk.ob(not bad, "A13.scan-continues", "eval_vars", b.where(h), "the scan stops early only where a text search found nothing", f"eval_vars stops scanning on an Option that is not the result of a text search ({', '.join(f'{w}: {nm}' for w, nm in bad)}): an undefined variable ends the substitution, so defined references after it in the same value stay verbatim")


def _place_op(pl):
    return {"c": [pl[0], list(pl[1])]}


def _reaches_within(b, start, header, blocks):
    """can `header` be reached from `start` staying inside the loop?"""
    seen, work = set(), [start]
    while work:
        x = work.pop()
        if x == header:
            return True
        if x in seen or x not in blocks:
            continue
        seen.add(x)
        work += list(b.succ[x])
    return False


def scope_pairing(prog, chk, rule):
    n_open = 0
    # a helper all of whose paths pop (push) is itself a pop (push)
    pops = {POP} | R.wrappers_of(prog, {POP}, forbid={PUSH})
    pushes = {PUSH} | R.wrappers_of(prog, {PUSH}, forbid={POP})
    is_pop = lambda c: c.path in pops
    for body in prog.bodies.values():
        if body.path in pops or body.path in pushes:
            continue
        opens = R.calls_to(body, lambda c: c.path in pushes)
        if not opens:
            continue
        chk.touch(body)
        closes = [(b, R.TERM) for (b, t, c) in R.calls_to(body, is_pop)]
        edges, det = R.err_closure_close_edges(prog, body, is_pop)
        for k, (b, t, c) in enumerate(opens):
            n_open += 1
            where = body.where(b, t.get("line"))
            key = f"{body.short}:push_element" + (f"#{k}" if len(opens) > 1 else "")
            esc = R.escapes(body, (b, R.TERM), closes, closed_edges=edges)
            if esc:
                # report each distinct escaping exit by the source line of its last branching `?`
                lines = sorted({tuple(R.path_lines(body, p)[-3:]) for p in esc})
                chk.bad(
                    rule,
                    key,
                    where,
                    f"{len(esc)} exit(s) leave the scope pushed (element attributes leak as variables into unrelated later elements once the failed element is retried): exits via lines {[list(l) for l in lines][:6]}",
                    path=esc[0],
                )
            else:
                chk.ok(rule, key, where, f"every exit after push_element passes pop_element ({len(closes)} direct close site(s), {len(edges)} Err-edge(s) closed by the inspect_err idiom)")
            # content is processed inside the scope
            inner = R.calls_to(body, lambda c: c.path == "svgdx::transform::process_events" or (c.decl_path == "svgdx::transform::EventGen::generate_events" or c.path.endswith(" as svgdx::transform::EventGen>::generate_events")))
            for (ib, it, ic) in inner:
                chk.ob(
                    body.dominates(b, ib) and b != ib,
                    "A13.scope-before-content",
                    f"{body.short}:{ic.path.split('::')[-1]}",
                    body.where(ib, it.get("line")),
                    "the scope is pushed before the element's content is processed",
                    "content is processed on a path that has not pushed the element's scope",
                )
    chk.floor(rule, n_open, 2, "push_element call site (GroupElement, ReuseElement)")


def stack_writers(prog, chk):
    allowed = {
        "scope_stack": {PUSH, POP, ENSURE},
        "element_stack": {PUSH, POP},
    }
    for field, ok in allowed.items():
        w = R.field_writers(prog, field, CTX)
        w = {k: v for k, v in w.items() if not k.endswith("::default")}
        extra = sorted(set(w) - ok)
        missing = sorted(ok - set(w))
        chk.ob(
            not extra and not missing,
            "A10.stack-writers",
            field,
            "src/context.rs",
            f"{field} is mutated only by {sorted(x.split('::')[-1] for x in ok)}",
            f"{field}: unexpected writers {extra}, expected writers missing {missing}",
        )
    # both stacks move together, unconditionally
    for fn, meth in ((PUSH, "push"), (POP, "pop")):
        b = prog.body(fn)
        chk.touch(b)
        got = {}
        for (bb, t, c) in R.calls_to(b, lambda c: c.path.startswith("std::vec::Vec") and c.path.endswith("::" + meth)):
            ch = b.chase(t["args"][0])
            if ch[0] == "place" and ch[1][1]:
                got[ch[1][1][-1]] = bb
        both = {".scope_stack", ".element_stack"} <= set(got)
        uncond = both and all(all(b.dominates(bb, r) for r in b.return_blocks) for bb in got.values())
        chk.ob(
            both and uncond,
            "A10.stacks-together",
            fn.split("::")[-1],
            b.where(),
            f"{fn.split('::')[-1]} {meth}es scope_stack and element_stack, both unconditionally",
            f"{fn.split('::')[-1]} does not {meth} both stacks on every path (found {sorted(got)})",
        )


def innermost_writes(prog, chk):
    w = R.field_writers(prog, "vars", SCOPE)
    ok = {SETVAR}
    extra = sorted(set(w) - ok)
    chk.ob(
        not extra and SETVAR in w,
        "A10.vars-writers",
        "Scope.vars",
        "src/context.rs",
        "Scope::vars is mutated only in set_var",
        f"Scope::vars mutated in {extra or sorted(w)}",
    )
    sv = prog.body(SETVAR)
    chk.touch(sv)
    good = True
    why = ""
    for (bb, i, kind) in w.get(SETVAR, []):
        s = sv.stmts(bb)[i]
        base = P(s["rv"]["place"])[0] if kind == "mut-borrow" else s["lhs"][0]
        ch = sv.chase_place((base, ()))
        if not (ch[0] == "call" and "fn" in ch[2] and Callee(ch[2]["fn"]).path == ENSURE):
            good = False
            why = f"the scope written at {sv.where(bb, s.get('line'))} does not come from ensure_scope()"
    chk.ob(good, "A10.vars-innermost", "set_var", sv.where(), "set_var writes into the scope returned by ensure_scope()", why)
    es = prog.body(ENSURE)
    chk.touch(es)
    lm = R.calls_to(es, lambda c: c.path.endswith("::last_mut"))
    ret_from_last = False
    for (bb, t, c) in lm:
        ch = es.chase(t["args"][0])
        # argument derives (through deref_mut of the Vec) from .scope_stack
        if _derives_from_field(es, t["args"][0], ".scope_stack"):
            ret_from_last = True
    if not lm:
        # the same element written as `&mut self.scope_stack[self.scope_stack.len() - 1]`
        from sa import discharge as D_

        for (bb, t, c) in es.call_sites(lambda c: c.decl_path == "std::ops::IndexMut::index_mut"):
            if not _derives_from_field(es, t["args"][0], ".scope_stack"):
                continue
            o = R.origin(es, t["args"][1], carriers={})
            rv = o[1] if o[0] == "rv" else None
            if rv is None:
                pl_ = op_place(t["args"][1])
                d_ = es.single_def(pl_[0]) if pl_ is not None and not pl_[1] else None
                if d_ and d_[1] != R.TERM and d_[2]["k"] == "use" and op_place(d_[2]["op"]) is not None and op_place(d_[2]["op"])[1] == (".0",):
                    d2_ = es.single_def(op_place(d_[2]["op"])[0])
                    rv = d2_[2] if d2_ and d2_[1] != R.TERM else None
            if rv is not None and rv.get("k") == "binop" and str(rv.get("op", "")).startswith("Sub") and (rv["b"].get("k") or {}).get("int") == 1 and D_._len_subject(es, rv["a"])[0] == D_.value_key(es, t["args"][0]):
                lm = [(bb, t, c)]
                ret_from_last = True
            elif o[0] == "const":
                lm = [(bb, t, c)]  # a fixed position: not the innermost scope (violation below)
        if not lm:
            chk.undecided("A10.vars-innermost", "ensure_scope", es.where(), "ensure_scope takes the scope neither with last_mut() nor by index: which scope it returns is not read here")
    if lm:
        chk.ob(
            len(lm) == 1 and ret_from_last,
            "A10.vars-innermost",
            "ensure_scope",
            es.where(),
            "ensure_scope returns scope_stack.last_mut() (the innermost scope)",
            "ensure_scope does not return the last element of scope_stack",
        )


def _derives_from_field(body, op, field, depth=6):
    ch = body.chase(op)
    while depth > 0:
        depth -= 1
        if ch[0] == "place":
            return field in ch[1][1]
        if ch[0] == "call" and ch[2]["args"]:
            ch = body.chase(ch[2]["args"][0])
            continue
        return False
    return False


def parallel_assignment(prog, chk):
    ve = prog.body("<svgdx::transform::VarElement as svgdx::transform::EventGen>::generate_events")
    chk.touch(ve)
    sets = R.calls_to(ve, R.path_is(SETVAR))
    evals = R.calls_to(ve, R.path_endswith("expression::eval_attr", "expression::eval_vars", "expression::eval_expr", "expression::eval_list", "expression::eval_condition"))
    chk.floor("A13.parallel-assign", min(len(sets), len(evals)), 1, "set_var / eval_attr call in VarElement")
    eval_blocks = {b for (b, t, c) in evals}
    bad = []
    for (b, t, c) in sets:
        r = ve.reach_after(b)
        hit = r & eval_blocks
        if hit:
            bad.append((b, sorted(hit)))
    chk.ob(
        not bad,
        "A13.parallel-assign",
        "VarElement",
        ve.where(),
        "no path leads from an assignment (set_var) to an evaluation (eval_attr): all attributes of one <var> are evaluated before any is assigned",
        f"an evaluation can run after an assignment of the same <var> (set_var at {[ve.where(b) for b, _ in bad]} reaches eval_attr) - assignment is no longer simultaneous",
    )
    # all or nothing: an evaluation that failed ends the <var> before anything is assigned.  From the Err edge of an
    # evaluation's result no assignment is reachable (a <var> that assigns some attributes and then reports the error of
    # another is retried as a whole - `n="{{$n+1}}"` is then applied twice)
    set_blocks = {b for (b, t, c) in sets}
    leaks = []
    for (eb, et, ec) in evals:
        if not et.get("dest") or et["dest"][1]:
            continue
        for (sb, st) in R.discr_switches_of(ve, et["dest"][0]):
            m = {v: tgt for v, tgt in st["vals"]}
            err_t = m.get(1, st["otherwise"] if 0 in m else None)
            ok_t = m.get(0, st["otherwise"] if 1 in m else None)
            if err_t is None or err_t == ok_t:
                continue
            if set_blocks & set(ve.reach([err_t], avoid=[ok_t] if ok_t is not None else [])):
                leaks.append(ve.where(eb, et.get("line")))
        # through `?`: the Break edge returns (nothing to check)
    chk.ob(not leaks, "A13.parallel-assign", "VarElement:all-or-nothing", ve.where(), "after a failed evaluation no attribute of the <var> is assigned", f"an assignment (set_var) is reachable after the evaluation at {leaks[:2]} has failed: the attributes that did evaluate are assigned although the <var> fails and is retried - an update such as n=\"{{{{$n+1}}}}\" or a swap a=\"$b\" b=\"$a\" is applied twice")
    # set_var is the only way VarElement stores, and who else calls set_var
    callers = sorted({re.sub(r"(::\{closure#\d+\})+", "", x.path) for x in prog.callers_of(prog.body(SETVAR))})
    expected = sorted(
        [
            "<svgdx::transform::VarElement as svgdx::transform::EventGen>::generate_events",
            "<svgdx::loop_el::LoopElement as svgdx::transform::EventGen>::generate_events",
            "<svgdx::loop_el::ForElement as svgdx::transform::EventGen>::generate_events",
        ]
    )
    chk.ob(
        callers == expected,
        "A10.set_var-callers",
        "set_var",
        prog.body(SETVAR).where(),
        "set_var is called only by <var>, <loop> and <for>",
        f"set_var has unexpected callers: {callers}",
    )


def lookup_order(prog, chk):
    gv = prog.body("<svgdx::context::TransformerContext as svgdx::context::VariableMap>::get_var")
    chk.touch(gv)
    revs = R.calls_to(gv, lambda c: c.decl_path == "std::iter::Iterator::rev")
    nexts = R.calls_to(gv, lambda c: c.decl_path == "std::iter::Iterator::next")
    ok_rev = len(revs) == 1 and "svgdx::context::Scope" in revs[0][2].self_ty and _derives_from_field(gv, revs[0][1]["args"][0], ".scope_stack")
    ok_next = len(nexts) == 1 and "std::iter::Rev<std::slice::Iter<" in nexts[0][2].self_ty
    # the same walk written with an adapter: `.iter().rev().find_map(|scope| scope.vars.get(name))` - find_map / find
    # over the reversed iterator stops at the first (innermost) hit by definition
    finds = R.calls_to(gv, lambda c: c.decl_path in ("std::iter::Iterator::find_map", "std::iter::Iterator::find"))
    by_adapter = not nexts and len(finds) == 1 and "std::iter::Rev<std::slice::Iter<" in finds[0][2].self_ty and len(revs) == 1 and R.origin(gv, finds[0][1]["args"][0], carriers={})[:2] == ("call", revs[0][0])
    if by_adapter:
        ok_next = True
    chk.ob(
        ok_rev and ok_next,
        "A15.lookup-innermost-first",
        "get_var:rev",
        gv.where(),
        "get_var walks scope_stack through .iter().rev() (innermost scope first)",
        f"get_var does not iterate scope_stack innermost-first (rev calls={len(revs)}, loop iterator={[c.self_ty for _, _, c in nexts]})",
    )
    # first hit returns: from the Some edge of HashMap::get the loop header is not reachable
    gets = R.calls_to(gv, lambda c: c.path.startswith("std::collections::HashMap") and c.path.endswith("::get"))
    first_hit = False
    if len(gets) == 1 and nexts:
        gb, gt, _ = gets[0]
        sw = R.find_switch_on_discr(gv, gt["t"], gt["dest"][0])
        if not sw and not gt["dest"][1]:
            # the hit is tested after being handed on (out of a spliced helper, through a reference ..)
            sws = R.discr_switches_of(gv, gt["dest"][0])
            sw = sws[0] if len(sws) == 1 else None
        if sw:
            sb, st = sw
            some_t = [tgt for v, tgt in st["vals"] if v == 1]
            if not some_t and any(v == 0 for v, _tgt in st["vals"]):
                some_t = [st["otherwise"]]
            if some_t:
                reg = gv.reach(some_t)
                first_hit = nexts[0][0] not in reg and any(gv.term(x)["k"] == "ret" for x in reg)
    chk.ob(
        first_hit or (ok_rev and by_adapter),
        "A15.lookup-innermost-first",
        "get_var:first-hit",
        gv.where(),
        "the first scope that defines the name decides (the Some edge returns without continuing the walk)",
        "get_var does not return at the first (innermost) hit",
    )
    # the answer always comes from that walk: no return of get_var is reached without it (a memo consulted first
    # answers from a state of the stack that may be gone)
    if revs:
        rb = revs[0][0]
        skipping = [gv.where(x) for x in gv.return_blocks if not gv.dominates(rb, x)]
        chk.ob(not skipping, "A15.lookup-innermost-first", "get_var:always-walks", gv.where(), "every result of get_var comes from walking the scope stack as it is now", f"get_var can return without walking the scope stack (return at {skipping}): the value comes from somewhere else (a cache, a default) and need not be the innermost current binding")
    # nobody else reads scope variables
    readers = sorted(R.field_readers(prog, "vars", SCOPE))
    allowed = sorted(["<svgdx::context::TransformerContext as svgdx::context::VariableMap>::get_var", SETVAR, "svgdx::context::Scope::with_vars",
                      "<svgdx::context::Scope as std::clone::Clone>::clone", "<svgdx::context::Scope as std::fmt::Debug>::fmt", "<svgdx::context::Scope as std::default::Default>::default"])
    extra = [r for r in readers if r not in allowed and "{closure" not in r]
    extra += [r for r in readers if "{closure" in r and not r.startswith("<svgdx::context::TransformerContext as svgdx::context::VariableMap>::get_var")]
    chk.ob(not extra, "A10.vars-readers", "Scope.vars", "src/context.rs", "Scope::vars is read only by get_var", f"Scope::vars is also accessed by {extra}")


def scope_vars_complete(prog, chk):
    """push_element hands the element's whole attribute map to the new scope: every attribute shadows, whatever its name"""
    b = prog.body(PUSH)
    chk.touch(b)
    # decided on the value push_element pushes, as the affine evaluator computes it (through whatever constructor /
    # helper builds the scope): a scope whose variables are exactly get_attrs() of the element
    try:
        from sa import algebra as A

        ev = A.Evaluator(prog, watch=("push",), opaque=["svgdx::element::SvgElement::get_attrs"], transparent=("fstr",))
        ev.summary(PUSH)
        scopes = [c["args"][-1] for c in ev.calls if c["name"] == "push" and c["args"] and not A.is_form(c["args"][-1]) and c["args"][-1] is not None and c["args"][-1][0] == "struct" and "vars" in c["args"][-1][1]]
        if len(scopes) == 1 and not ev.incomplete and scopes[0][1]["vars"] is not None:
            got = A.canon(scopes[0][1]["vars"])
            # the whole map handed on through conversions that keep every entry (into another map type, say)
            core = got
            for _ in range(6):
                m_ = re.fullmatch(r"(collect|into_iter|iter|cloned|clone|from|into|to_owned|from_iter|copied)\((.*)\)", core)
                if not m_:
                    break
                core = m_.group(2)
            if re.fullmatch(r"get_attrs\(\$1\)", core):
                chk.ok("A10.scope-vars", "push_element:with_vars", b.where(), "the scope pushed for an element has as its variables the element's complete attribute map (get_attrs(), unfiltered)")
                return
            if "$1" in got and "get_attrs" in got:
                chk.bad("A10.scope-vars", "push_element:with_vars", b.where(), f"the scope's variables are {got[:160]}, not the element's complete attribute map get_attrs($1): some attributes of an enclosing <g>/<reuse> no longer shadow outer values")
                return
    except Exception:  # noqa: BLE001 - an idiom the evaluator does not know: the call-shape reading below decides
        pass
    wv = b.call_sites(R.path_endswith("Scope::with_vars"))
    if len(wv) != 1:
        chk.anchor_missing("A10.scope-vars", f"push_element: expected one Scope::with_vars call, found {len(wv)}")
        return
    bb, t, c = wv[0]
    o = R.origin(b, t["args"][0], carriers={})
    src = Callee(o[2]["fn"]).path if o[0] == "call" and "fn" in o[2] else None
    # ... and the map is not edited on the way (retain / remove / clear ... need a `&mut` borrow of it)
    edited = False
    if o[0] == "call":
        l = o[2]["dest"][0]
        seen_l, work = set(), [l]
        while work:
            x = work.pop()
            if x in seen_l:
                continue
            seen_l.add(x)
            for (ub, ui, node, how) in R.uses_of(b, x):
                if ui != R.TERM and "rv" in node:
                    rv = node["rv"]
                    if rv["k"] in ("ref", "rawptr") and rv.get("mut"):
                        edited = True
                    elif rv["k"] == "use" and not node["lhs"][1]:
                        work.append(node["lhs"][0])
    src = None if edited else src
    chk.ob(src is not None and src.endswith("SvgElement::get_attrs"), "A10.scope-vars", "push_element:with_vars", b.where(bb, t.get("line")), "the scope of an element is created from its complete attribute map (get_attrs(), unfiltered)", f"the scope's variables do not come straight from get_attrs() (they come from {src or o[0]}): some attributes of an enclosing <g>/<reuse> no longer shadow outer values")


def reuse_overrides_evaluated(prog, chk):
    """the attribute values a <reuse> passes to its target are the *evaluated* ones: the map iterated in
    ReuseElement::generate_events comes from the element that went through eval_attributes()"""
    b = prog.body("<svgdx::reuse::ReuseElement as svgdx::transform::EventGen>::generate_events")
    chk.touch(b)
    evald = set()
    for (bb, t, c) in b.call_sites(R.path_endswith("SvgElement::eval_attributes")):
        l = R.origin_local(b, t["args"][0])
        if l is not None:
            evald.add(l)
    ga = b.call_sites(R.path_endswith("SvgElement::get_attrs"))
    chk.floor("A10.reuse-evaluated-attrs", len(ga), 1, "get_attrs() call in ReuseElement::generate_events")
    for k, (bb, t, c) in enumerate(ga):
        l = R.origin_local(b, t["args"][0])
        ok = l is not None and l in evald
        chk.ob(ok, "A10.reuse-evaluated-attrs", f"ReuseElement:get_attrs#{k + 1}", b.where(bb, t.get("line")), f"the attributes handed to the target are read from `{b.local_name(l) if l is not None else '?'}`, which was evaluated in the <reuse>'s own scope first", "the attributes handed to the target are read from an element that did not go through eval_attributes() (the raw <reuse>): their {{..}} / $var text is evaluated later, inside the target, where inner definitions capture the names")


def own_attributes_outside_scope(prog, chk):
    """an element's own attributes are evaluated in the *enclosing* scope: in the functions that push a scope for the
    element they process, eval_attributes() on that element (a clone of `self.0`) happens before the push and never after"""
    n = 0
    for path in ("<svgdx::transform::GroupElement as svgdx::transform::EventGen>::generate_events", "<svgdx::reuse::ReuseElement as svgdx::transform::EventGen>::generate_events"):
        b = prog.body(path)
        pushes = [bb for (bb, t, c) in b.call_sites(R.path_is(PUSH))]
        if not pushes:
            chk.anchor_missing("A13.own-attrs-outside", f"{b.short}: push_element not found")
            continue
        for (bb, t, c) in b.call_sites(R.path_endswith("SvgElement::eval_attributes")):
            l = R.origin_local(b, t["args"][0])
            if l is None:
                continue
            # is the evaluated element a clone of self.0 ?
            own = False
            for d in b.defs_of(l):
                if d[1] == R.TERM and "fn" in d[2] and Callee(d[2]["fn"]).decl_path == "std::clone::Clone::clone":
                    o = R.origin(b, d[2]["args"][0], carriers={})
                    if (o[0] == "field" and o[1][0] == 1) or (o[0] == "arg" and o[1] == 1):
                        own = True  # clone of `self.0` (the element this EventGen wraps)
            if not own:
                continue
            n += 1
            after = any(bb in b.reach_after(pb) for pb in pushes)
            chk.ob(not after, "A13.own-attrs-outside", f"{b.short}:eval_attributes", b.where(bb, t.get("line")), "the element's own attributes are evaluated before its scope is pushed", f"{b.short} evaluates the element's own attributes after pushing its scope: an attribute that mentions a name the element itself defines (`<g k=\"2\" v=\"$k\">`) resolves to the element's value instead of the enclosing one")
    chk.floor("A13.own-attrs-outside", n, 2, "eval_attributes on the element whose scope is pushed")


def pops_follow_pushes(prog, chk):
    """no pop without a push: every pop_element in a function body is dominated by a push_element of that body (closures
    of the inspect_err idiom run only on the error edge of a call made inside the scope)"""
    n = 0
    popw = {POP} | R.wrappers_of(prog, {POP}, forbid={PUSH})
    pushw = {PUSH} | R.wrappers_of(prog, {PUSH}, forbid={POP})
    for b in prog.bodies.values():
        if b.root or b.path in popw or b.path in pushw:
            continue
        pops = b.call_sites(lambda c: c.path in popw)
        if not pops:
            continue
        pushes = [bb for (bb, t, c) in b.call_sites(lambda c: c.path in pushw)]
        for (bb, t, c) in pops:
            n += 1
            ok = any(b.dominates(pb, bb) and pb != bb for pb in pushes)
            chk.ob(ok, "A5.pop-after-push", f"{b.short}:pop@{n}", b.where(bb, t.get("line")), "this pop_element is preceded by a push_element on every path", f"{b.short}: a pop_element can be reached on a path that pushed nothing (the push is conditional, the pop is not): the enclosing element's scope is popped instead, and later siblings lose its variables")
    chk.floor("A5.pop-after-push", n, 3, "pop_element call in a function body")



def dispatch_by_name_only(prog, chk):
    """which kind of element an element is processed as depends on its name alone: no arm of the dispatcher's match on
    the name carries a guard.  A guarded arm (`"g" if !context.in_specs => GroupElement`) sends the same element down
    the generic path in some contexts - where a group opens no variable scope, a loop is not expanded .."""
    GEN_ = "<svgdx::element::SvgElement as svgdx::transform::EventGen>::generate_events"
    b = prog.body(GEN_)
    chk.touch(b)
    n = 0
    found = [x for part in prog.hir_expand(prog.hir[b.id]["body"]) for x in hirq.str_matches({"body": part})]
    for m, arms in found:
        # the dispatch proper: arms that hand the element to an element-specific generate_events
        disp = [(ls, a) for ls, a in arms if any(x != hirq.WILD for x in ls) and any(mc.get("name") == "generate_events" for mc in hirq.exprs(a["body"], "MethodCall"))]
        if len(disp) < 3:
            continue
        for ls, a in disp:
            n += 1
            names = "/".join(x for x in ls if x != hirq.WILD)
            chk.ob(a.get("guard") is None, "A15.dispatch-by-name", names, b.where(line=a.get("line") or a["body"].get("line")), f"<{names}> is always processed by its own element type", f"the dispatcher's arm for <{names}> carries a guard: under some condition the element is not processed as a <{names}> but falls through to the generic container / shape path (a <g> there opens no variable scope, a <loop> is copied instead of expanded ..)")
    chk.floor("A15.dispatch-by-name", n, 8, "name arm of the element dispatcher")
