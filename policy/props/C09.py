"""C09 Relative positioning places elements exactly where the relspec says (selection wiring only)."""
from sa import rules as R, hirq
from sa.prog import P, Callee, op_place, op_const, const_str

EXPLANATION = (
    "Decides the *selection wiring* around the (numeric, undecided) placement arithmetic, composed end-to-end so that the "
    "reference tables mention only external vocabulary (letters, location names, bounding-box fields): direction letter -> "
    "side of the reference box (h: x2 | y1,y2 ...); the nine location names and four edges -> fields read by locspec; the "
    "scalar names -> field/operation read by scalarspec; scalar -> location mapping; the xy-loc letter -> anchor attribute "
    "pair; the order of the resolve_position pipeline (sizes and size deltas before relative placement, relative placement "
    "before compound x/y expansion, everything before set_position_attrs); a <point> becomes `^` before its own box is "
    "discarded; no min/max of an operand with itself in the bounding-box code. Undecided - the core of the statement: gaps, "
    "centring, percent and negative offsets, dx/dy, exactness up to rounding."
    " Beyond the selection wiring, A17 (affine abstract evaluation of the typed HIR against policy/spec/geometry_algebra.json) decides as exact term identities: |h |H |v |V placement, the 13 locspec locations, calc_offset, the 11 scalarspec values, Length::evaluate/adjust, size and box of each shape; dx/dy never cross axes (shared with C11). Undecided: float rounding, tokenisers, the reference-chain fix-point."
)
TRUSTED = []
ASSUMPTIONS = []

POS = "svgdx::position::"
EL = "svgdx::element::SvgElement"

DIR_REF = {"h": (["x2"], ["y1", "y2"]), "H": (["x1"], ["y1", "y2"]), "v": (["x1", "x2"], ["y2"]), "V": (["x1", "x2"], ["y1"])}
LOC_REF = {
    "tl": (["x1"], ["y1"]), "t": (["x1", "x2"], ["y1"]), "tr": (["x2"], ["y1"]), "r": (["x2"], ["y1", "y2"]), "br": (["x2"], ["y2"]),
    "b": (["x1", "x2"], ["y2"]), "bl": (["x1"], ["y2"]), "l": (["x1"], ["y1", "y2"]), "c": (["x1", "x2"], ["y1", "y2"]),
}
EDGE_REF = {"t": (["x1", "x2"], ["y1"], "x"), "r": (["x2"], ["y1", "y2"], "y"), "b": (["x1", "x2"], ["y2"], "x"), "l": (["x1"], ["y1", "y2"], "y")}
SCALAR_REF = {
    "x": ["x1"], "x1": ["x1"], "y": ["y1"], "y1": ["y1"], "x2": ["x2"], "y2": ["y2"], "cx": ["x1", "x2"], "cy": ["y1", "y2"],
    "w": ["x1", "x2"], "width": ["x1", "x2"], "h": ["y1", "y2"], "height": ["y1", "y2"], "rx": ["x1", "x2"], "ry": ["y1", "y2"], "r": ["Rx", "Ry"],
}
SCALAR_LOC_REF = {"Minx": "Left", "Maxx": "Right", "Cx": "Center", "Miny": "Top", "Maxy": "Bottom", "Cy": "Center", "Width": "Right", "Radius": "Right", "Rx": "Right", "Height": "Bottom", "Ry": "Bottom"}
XYLOC_REF = {"t": ("cx", "y1"), "tr": ("x2", "y1"), "r": ("x2", "cy"), "br": ("x2", "y2"), "b": ("cx", "y2"), "bl": ("x1", "y2"), "l": ("x1", "cy"), "c": ("cx", "cy"), hirq.WILD: ("x", "y")}


def run(prog, chk):
    chk.rule(tables, prog, chk)
    chk.rule(pipeline, prog, chk)
    chk.rule(prev_point, prog, chk)
    chk.rule(identical_operands, prog, chk)
    chk.rule(gap_is_a_number, prog, chk)
    chk.rule(ratio_needs_percent_sign, prog, chk)
    from props import C11
    chk.rule(C11.axis_consistency, prog, chk)  # dx / dy and coordinates never cross axes (shared with C11)
    chk.rule(C11.emission_algebra, prog, chk)  # the position that was worked out is written as the element's native geometry
    chk.rule(C11.native_only, prog, chk)  # ... and the offsets it consumed (dx / dy) are removed, not applied a second time
    from props import C16, C10
    chk.rule(C16.extent_accumulation, prog, chk)  # a group's box (what `#g|h` / `#g~x2` refer to) includes every pass of a loop inside it
    chk.rule(C10.retry_progress, prog, chk)  # a forward reference (also to a <point>) is placed on the retry
    chk.rule(C10.registration_keys_agree, prog, chk)  # ... against the resolved target: a deferred target's provisional registration is withdrawn under the key it was made under
    chk.rule(C11.extraction_algebra, prog, chk)
    from props import C17
    chk.rule(C17.depth_pairing, prog, chk)  # forward references are placed by retrying: a depth count leaked by a deferred attempt turns a valid chain into a limit error
    from props import geomalg
    chk.rule(geomalg.check_sites, prog, chk, "C09")
    chk.rule(geomalg.check_float_truncation, prog, chk)  # no float is cut down to an integer on the way (a truncated distance / coordinate makes different candidates tie)
    chk.rule(geomalg.check, prog, chk, "C09", floor=47)
    from props import strops
    chk.rule(strops.check_for, prog, chk, "C09")  # A14.str-ops: how this property's strings are cut up is a reviewed, frozen inventory
    chk.rule(strops.blank_only_separators, prog, chk)  # a pair / list cut at blanks is cut at tabs and newlines too
    from props import strops as _so
    from props import C04 as _C04f
    chk.rule(_C04f.formatter_integer_shortcut_is_exact, prog, chk)  # the x / y / width a later `#id|h` reads back are the computed ones up to the output rounding
    chk.rule(_so.affix_test_sees_what_parser_sees, prog, chk)  # `dw="50% "` and `dw="50%"` are the same shorthand value


def _variant_of(n):
    """variant name returned by an expression like Ok(Self::X) / Self::X / Self::X(len)"""
    for p in hirq.exprs(n, "Path"):
        r = p.get("res") or {}
        if str(r.get("dk", "")).startswith("Ctor") or "Variant" in str(r.get("dk", "")):
            name = r.get("path", "").split("::")[-1]
            if name not in ("Ok", "Err", "Some", "None"):
                return name
    return None


def str_to_variant(owner, nested=False):
    out = {}
    inner = {}
    for m, arms in hirq.str_matches(owner):
        for ls, a in arms:
            v = _variant_of(a["body"])
            for l in ls:
                if l != hirq.WILD and v:
                    (out if l not in out else inner)[l] = v
    return out


def variant_arms(owner):
    """{variant: arm body} for matches over enum variants"""
    out = {}
    for m in hirq.exprs(owner["body"], "Match"):
        if m.get("src") not in ("Normal", None):
            continue
        for a in m["arms"]:
            for p in _pat_variants(a["pat"]):
                out.setdefault(p, a["body"])
    return out


def _pat_variants(pat):
    p = pat.get("p")
    if p in ("path", "tstruct", "struct"):
        return [pat["res"].get("path", "").split("::")[-1]]
    if p == "or":
        out = []
        for x in pat["pats"]:
            out += _pat_variants(x)
        return out
    if p == "ref":
        return _pat_variants(pat["sub"])
    return []


def _self_fields(n, lets):
    """fields of `self` read by expression n (locals bound by `let` to tuples of fields are resolved)"""
    out = set()
    for f in hirq.exprs(n, "Field"):
        fc = hirq.field_chain(f)
        if fc and fc[0] == "self" and len(fc) == 2:
            out.add(fc[1])
    for p in hirq.exprs(n, "Path"):
        l = (p.get("res") or {}).get("local")
        if l in lets:
            out |= lets[l]
    return out


def _component_fields(owner, body):
    """for a (x, y)-valued arm: (fields in x, fields in y, has calc_offset in x/y)"""
    lets = {}
    lets_xy = {}
    for st in hirq.walk(owner["body"]):
        if st.get("k") == "Let" and st.get("pat", {}).get("p") == "bind" and isinstance(st.get("init"), dict) and st["init"].get("k") == "Tup" and len(st["init"]["items"]) == 2:
            lets_xy[st["pat"]["name"]] = st["init"]["items"]
    n = body
    while isinstance(n, dict) and n.get("k") == "Block" and n.get("expr") and not n.get("stmts"):
        n = n["expr"]
    if n.get("k") == "Path" and (n.get("res") or {}).get("local") in lets_xy:
        items = lets_xy[n["res"]["local"]]
    elif n.get("k") == "Tup" and len(n["items"]) == 2:
        items = n["items"]
    else:
        return None
    res = []
    for it in items:
        res.append((sorted(_self_fields(it, {})), any(m["name"] == "calc_offset" for m in hirq.exprs(it, "MethodCall"))))
    return res


def tables(prog, chk):
    ds = prog.hir[prog.body("<svgdx::position::DirSpec as std::str::FromStr>::from_str").id]
    tl = prog.hir[prog.body(POS + "DirSpec::to_locspec").id]
    ls_fn = prog.body(POS + "BoundingBox::locspec")
    ls = prog.hir[ls_fn.id]
    letters = str_to_variant(ds)
    dir_to_loc = {v: _variant_of(b) for v, b in variant_arms(tl).items()}
    loc_arms = variant_arms(ls)
    loc_fields = {v: _component_fields(ls, b) for v, b in loc_arms.items()}
    chk.floor("A15.selection-tables", len(loc_fields), 13, "locspec arm")
    # the reading of locspec's arms is only trusted when every component of every arm is a plain expression over the
    # box's own fields; hoisted locals (`mid_x`), helpers or another arm layout make it unreadable - the values
    # themselves are decided by A17.algebra (BoundingBox::locspec), the name tables below by this rule
    readable = bool(loc_fields) and all(f and all(c[0] for c in f) for f in loc_fields.values()) and bool(letters) and bool(dir_to_loc)
    if not readable:
        chk.undecided("A15.selection-tables", "locspec-arms", ls_fn.where(), "the arms of BoundingBox::locspec / the direction and location name tables are not in a form this rule can read (hoisted locals, helpers, a generic parser); the location values are decided by A17.algebra")
    # direction letters, composed
    for letter, (rx, ry) in DIR_REF.items():
        v = letters.get(letter)
        loc = dir_to_loc.get(v)
        got = loc_fields.get(loc)
        ok = got is not None and got[0][0] == rx and got[1][0] == ry
        if not readable:
            continue
        chk.ob(ok, "A15.selection-tables", f"dir:{letter}", ls_fn.where(), f"`|{letter}` anchors on x in {rx}, y in {ry} of the reference box", f"`|{letter}` -> {v} -> {loc} reads {got} (expected x {rx}, y {ry})")
    # location names
    lf = prog.hir[prog.body("<svgdx::position::LocSpec as std::str::FromStr>::from_str").id]
    names = {}
    edges = {}
    for m, arms in hirq.str_matches(lf):
        for lits, a in arms:
            v = _variant_of(a["body"])
            for l in lits:
                if l == hirq.WILD or not v:
                    continue
                if v.endswith("Edge"):
                    edges[l] = v
                else:
                    names[l] = v
    for name, (rx, ry) in LOC_REF.items():
        got = loc_fields.get(names.get(name))
        ok = got is not None and got[0][0] == rx and got[1][0] == ry and not got[0][1] and not got[1][1]
        if not readable:
            continue
        chk.ob(ok, "A15.selection-tables", f"loc:{name}", ls_fn.where(), f"`@{name}` is x from {rx}, y from {ry}", f"`@{name}` -> {names.get(name)} reads {got} (expected x {rx}, y {ry})")
    for name, (rx, ry, axis) in EDGE_REF.items():
        got = loc_fields.get(edges.get(name))
        ok = got is not None and got[0][0] == rx and got[1][0] == ry and got[0][1] == (axis == "x") and got[1][1] == (axis == "y")
        if not readable:
            continue
        chk.ob(ok, "A15.selection-tables", f"edge:{name}", ls_fn.where(), f"`@{name}:offset` runs along {axis} between {rx if axis == 'x' else ry} at fixed {'y ' + str(ry) if axis == 'x' else 'x ' + str(rx)}", f"`@{name}:offset` -> {edges.get(name)} reads {got}")
    # scalar names
    sf = prog.hir[prog.body("<svgdx::position::ScalarSpec as std::str::FromStr>::from_str").id]
    ss_fn = prog.body(POS + "BoundingBox::scalarspec")
    ss = prog.hir[ss_fn.id]
    snames = str_to_variant(sf)
    sarms = variant_arms(ss)
    for name, ref in SCALAR_REF.items():
        v = snames.get(name)
        arm = sarms.get(v)
        if arm is None:
            chk.bad("A15.selection-tables", f"scalar:{name}", ss_fn.where(), f"scalar `{name}` -> {v}: no arm in scalarspec")
            continue
        if name == "r":
            got = sorted({_variant_of(a) for m in hirq.exprs(arm, "MethodCall") if m["name"] == "scalarspec" for a in m["args"]} - {None})
            ok = got == ref and any(m["name"] == "max" for m in hirq.exprs(arm, "MethodCall"))
        else:
            got = sorted(_self_fields(arm, {}))
            ok = got == ref
            if name in ("w", "width", "h", "height", "rx", "ry"):
                ok = ok and any(m["name"] == "abs" for m in hirq.exprs(arm, "MethodCall")) and "Sub" in {x["op"] for x in hirq.exprs(arm, "Binary")}
            if name in ("cx", "cy"):
                ok = ok and {"Add", "Div"} <= {x["op"] for x in hirq.exprs(arm, "Binary")}
            if name in ("rx", "ry"):
                ok = ok and "Div" in {x["op"] for x in hirq.exprs(arm, "Binary")}
        if not ok:
            # values hoisted into locals before the match (`let abs_width = ..`) or computed by helpers of the box
            # (`self.midpoint().0`): what the arm reads is not written in the arm; A17.algebra decides the value
            locals_ = [p for p in hirq.exprs(arm, "Path") if (p.get("res") or {}).get("local") not in (None, "self")]
            helpers_ = [m for m in hirq.exprs(arm, "MethodCall") if m["name"] not in ("abs", "max", "min") and (m.get("def") or "").startswith("svgdx::")]
            if locals_ or helpers_ or not got:
                chk.undecided("A15.selection-tables", f"scalar:{name}", ss_fn.where(), f"the arm for `{name}` reads through locals / helper methods ({got} seen directly); its value is decided by the evaluated algebra")
                continue
        chk.ob(ok, "A15.selection-tables", f"scalar:{name}", ss_fn.where(), f"scalar `{name}` reads {ref}", f"scalar `{name}` -> {v} reads {got} (expected {ref})")
    # scalar -> location
    fl = prog.hir[prog.body("<svgdx::position::LocSpec as std::convert::From<svgdx::position::ScalarSpec>>::from").id]
    got = {v: _variant_of(b) for v, b in variant_arms(fl).items()}
    chk.ob(got == SCALAR_LOC_REF, "A15.selection-tables", "scalar->loc", "src/position.rs", "each scalar kind maps to the location on the matching side (x2/w/r -> right, y2/h -> bottom, ...)", f"ScalarSpec -> LocSpec mapping is {got}")
    # xy-loc
    ec_fn = prog.body(EL + "::expand_compound_pos")
    ec = prog.hir[ec_fn.id]
    got = {}
    for m in hirq.exprs(ec["body"], "Match"):
        for a in m["arms"]:
            lits = _deep_pat_strs(a["pat"])
            n = a["body"]
            while n.get("k") == "Block" and n.get("expr"):
                n = n["expr"]
            if n.get("k") == "Tup" and len(n["items"]) == 2 and all(hirq.lit_str(x) for x in n["items"]):
                for l in lits or [hirq.WILD]:
                    got[l] = (hirq.lit_str(n["items"][0]), hirq.lit_str(n["items"][1]))
    # a literal `match` table must agree with the reference entry by entry; that every letter is handled (also when
    # the table is written some other way) is decided by the evaluated site shorthand-positions (cases rect:xy@<letter>)
    chk.ob(all(XYLOC_REF.get(k) == v for k, v in got.items()), "A15.selection-tables", "xy-loc", ec_fn.where(), "xy-loc selects the anchor attribute pair (t: cx,y1 ... default x,y)", f"xy-loc table is {got}")


def _deep_pat_strs(pat):
    out = []
    for n in hirq.walk(pat):
        if n.get("p") == "lit" and isinstance(n.get("lit"), dict) and "str" in n["lit"]:
            out.append(n["lit"]["str"])
    return out


def pipeline(prog, chk):
    rp = prog.body(EL + "::resolve_position")
    chk.touch(rp)

    def sites(name):
        return [bb for (bb, t, c) in rp.call_sites(lambda c: c.path.endswith("::" + name))]

    order = [
        ("eval_attributes", "handle_containment"),
        ("eval_attributes", "expand_compound_size"),
        ("expand_compound_size", "eval_rel_attributes"),
        ("expand_compound_size", "eval_rel_position"),
        ("resolve_size_delta", "eval_rel_position"),
        ("eval_rel_position", "expand_compound_pos"),
        ("expand_compound_pos", "set_position_attrs"),
        ("eval_rel_position", "set_position_attrs"),
    ]
    for a, b in order:
        sa, sb = sites(a), sites(b)
        ok = bool(sa) and bool(sb) and rp.dominates(sa[0], sb[0] if a != "expand_compound_size" or b != "eval_rel_attributes" else sb[0]) and sa[0] != sb[0]
        if a == "expand_compound_pos" and b == "set_position_attrs" or b == "set_position_attrs":
            ok = bool(sa) and bool(sb) and all(rp.dominates(sa[0], x) for x in sb)
        chk.ob(ok, "A13.resolve-order", f"{a}<{b}", rp.where(), f"{a}() runs before {b}()", f"{a}() does not precede {b}() in resolve_position: " + ("sizes and size deltas must be final before a direction-relative position is computed from them" if b == "eval_rel_position" else "pipeline order changed"))


def prev_point(prog, chk):
    oe = prog.body("<svgdx::transform::OtherElement as svgdx::transform::EventGen>::generate_events")
    chk.touch(oe)
    sp = oe.call_sites(R.path_is("svgdx::context::TransformerContext::set_prev_element"))
    # the `point` reset: assignment of None to the bbox local under name == "point"
    resets = []
    for (bb, t, c) in oe.call_sites(lambda c: c.decl_path == "std::cmp::PartialEq::eq"):
        lit = None
        for a in t["args"]:
            o = R.origin(oe, a, carriers={})
            if o[0] == "const" and "str" in o[1]:
                lit = o[1]["str"]
        if lit == "point":
            resets.append(bb)
    ok = bool(sp) and bool(resets) and all(sp[0][0] not in oe.reach([r]) for r in resets) and all(oe.dominates(sp[0][0], r) or _decided_before(oe, sp[0][0], r) for r in resets)
    chk.ob(ok, "A13.prev-before-point-reset", "OtherElement", oe.where(), "whether an element becomes the previous element (`^`) is decided on its own bounding box before a <point>'s box is discarded", "the <point> bounding box is discarded before the previous-element decision: a <point> would no longer become `^`")


def _decided_before(body, sp_bb, reset_bb):
    # set_prev is conditional (`if bb.is_some()`): its guard must dominate the reset
    idom = body.idom.get(sp_bb)
    return idom is not None and body.dominates(idom, reset_bb)


def identical_operands(prog, chk):
    n = 0
    bad = []
    for body in prog.bodies.values():
        if body.file not in ("src/element.rs", "src/position.rs", "src/connector.rs", "src/path.rs", "src/transform_attr.rs"):
            continue
        for (bb, t, c) in body.call_sites(lambda c: c.path.endswith("<impl f32>::min") or c.path.endswith("<impl f32>::max")):
            n += 1
            a, b_ = t["args"][0], t["args"][1]
            ka = R.origin_local(body, a) if op_place(a) else None
            kb = R.origin_local(body, b_) if op_place(b_) else None
            fa = R.origin(body, a, carriers={})
            fb = R.origin(body, b_, carriers={})
            same = (ka is not None and ka == kb) or (fa[0] == "field" and fb[0] == "field" and fa[1] == fb[1])
            if same:
                bad.append(body.where(bb, t.get("line")))
    chk.floor("A16.min-max-operands", n, 20, "f32::min/max call in the geometry code")
    chk.ob(not bad, "A16.min-max-operands", "geometry", "src/element.rs", f"none of the {n} min/max calls in the geometry code compares an operand with itself", f"min/max of an operand with itself at {bad}: one of the two intended operands is ignored (e.g. `y2.max(y2)` for a line drawn upwards)")


def ratio_needs_percent_sign(prog, chk):
    """a Length is a proportion only when it is written with `%`: `Length::Ratio` is built on the way that found the
    per cent sign and on no other (`0.5` is half a user unit, not half of the reference extent)"""
    b = prog.maybe_body("<svgdx::position::Length as std::str::FromStr>::from_str")
    if b is None:
        chk.anchor_missing("A13.length-kind", "impl FromStr for Length not found")
        return
    chk.touch(b)
    from sa import discharge as D

    scope = [b] + list(prog.closures_of(b))
    ratios = [(bd, x) for bd in scope for x, i, s_ in bd.all_stmts() if s_.get("rv", {}).get("k") == "aggr" and str(s_["rv"].get("adt", "")).endswith("position::Length") and s_["rv"].get("variant") == "Ratio"]
    if not ratios:
        chk.undecided("A13.length-kind", "Length::from_str", b.where(), "no Length::Ratio is built in Length::from_str itself: how a proportion is recognised is not read here")
        return
    bad = []
    for (bd, x) in ratios:
        ok = False
        for (a, tgt) in D.dominating_edges(bd, x):
            ta = bd.term(a)
            if ta["k"] != "switch":
                continue
            sd = R.switch_discr_place(bd, a)
            src = None
            if sd is not None and not sd[0][1]:
                d = bd.single_def(sd[0][0])
                src = d[2] if d and d[1] == R.TERM and "fn" in d[2] else None
                some_edge = tgt in [t_ for v_, t_ in ta["vals"] if v_ == 1] or (tgt == ta["otherwise"] and any(v_ == 0 for v_, _t in ta["vals"]))
            else:
                o = R.origin(bd, ta["op"], carriers={})
                src = o[2] if o[0] == "call" and "fn" in o[2] else None
                tt, ft = R.switch_targets_bool(ta)
                some_edge = tgt == tt
            if src is None or not some_edge:
                continue
            last = Callee(src["fn"]).path.split("::")[-1]
            if last in ("strip_suffix", "ends_with", "split_once", "rsplit_once", "find", "rfind", "contains") and len(src["args"]) > 1:
                p_ = R.origin(bd, src["args"][1], carriers={})
                if p_[0] == "const" and (p_[1].get("char") == "%" or p_[1].get("str") == "%"):
                    ok = True
        if not ok:
            bad.append(bd.where(x))
    chk.ob(not bad, "A13.length-kind", "Length::from_str", b.where(), "Length::Ratio is built only where the `%` sign was found", f"Length::from_str builds a Ratio at {bad[:2]} without having found a `%`: a plain number is taken as a proportion of the reference extent (`wh=\"#a 0.5\"` gives half the size of #a instead of its size + 0.5)")


def gap_is_a_number(prog, chk):
    """the gap of `|h |H |v |V` is a plain number of user units (either sign): eval_rel_position reads it with strp and
    never routes it through the edge-offset machinery (Length / calc_offset), whose negative values mean `from the far end`"""
    b = prog.body(EL + "::eval_rel_position")
    chk.touch(b)
    bad = [c.path for (bb, t, c) in b.call_sites(lambda c: c.path.split("::")[-1] in ("strp_length", "calc_offset", "evaluate", "adjust") and "svgdx::position" in c.path)]
    nums = b.call_sites(lambda c: c.path == "svgdx::types::strp")
    chk.floor("A14.gap-number", len(nums), 1, "strp call in eval_rel_position")
    chk.ob(not bad, "A14.gap-number", "eval_rel_position", b.where(), "the gap is parsed as a plain number", f"eval_rel_position treats the gap as a Length ({sorted(set(x.split('::')[-1] for x in bad))}): a negative gap is interpreted as an offset from the far end of the reference box instead of an overlap")
