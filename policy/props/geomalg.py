"""Shared rule A17: the geometry primitives agree, as algebraic terms, with the reference algebra in
policy/spec/geometry_algebra.json (affine abstract evaluation of the HIR; nothing is executed)."""
import json
import os

from sa.prog import op_place as A_op_place
from sa import algebra as A
from sa import hirq

SPEC = os.path.join(os.path.dirname(os.path.dirname(os.path.abspath(__file__))), "spec", "geometry_algebra.json")


def _definite(v):
    """no unknown (None) anywhere inside the value"""
    if v is None:
        return False
    if A.is_form(v):
        return True
    k = v[0]
    if k in ("tup", "fmt", "early"):
        return all(isinstance(x, str) or _definite(x) for x in v[1])
    if k in ("struct", "match"):
        return all(_definite(x) for kk, x in v[1].items() if not str(kk).startswith("__"))
    if k in ("some",):
        return _definite(v[1])
    if k == "if":
        return _definite(v[1]) and _definite(v[2])
    return True


def _reads(w):
    try:
        A.ref(w)
        return True
    except ValueError:
        return False  # a reference that mentions role symbols only parses under a renaming


def _same_shape(got, want):
    """do the two values carry their parts under the same names / in the same positions?  (a result moved into a
    private struct with other field names, or a tuple turned into a struct, cannot be compared part by part)"""
    if want is None or got is None:
        return True
    if not A.is_form(want) and want[0] == "any":
        return True
    if A.is_form(want) and len(want) == 1 and not A.is_form(got) and got[0] == "struct":
        return True  # an object named as a whole against its fields written out: compared field by field
    if A.is_form(got) and len(got) == 1 and "(" in str(list(got)[0]) and not A.is_form(want) and want[0] in ("some", "none"):
        return True  # an opaque Option-valued term against a definite Some / None: a difference of value
    if A.is_form(want) or A.is_form(got):
        return A.is_form(want) == A.is_form(got) or (not A.is_form(got) and got[0] in ("obj", "objf", "if", "match", "early")) or (not A.is_form(want) and want[0] in ("obj", "if"))
    if want[0] != got[0]:
        if {want[0], got[0]} <= {"some", "none", "err"}:
            return True  # present against absent is a difference of value, not of shape
        return got[0] in ("if", "match", "early", "obj") or want[0] in ("if", "match", "obj")
    if want[0] == "struct":
        kw = {k for k in want[1] if not str(k).startswith("__")}
        kg = {k for k in got[1] if not str(k).startswith("__")}
        return kw == kg and all(_same_shape(got[1][k], want[1][k]) for k in kw)
    if want[0] == "tup":
        return len(want[1]) == len(got[1]) and all(_same_shape(g, w) for g, w in zip(got[1], want[1]))
    if want[0] == "some":
        return _same_shape(got[1], want[1])
    return True


def _sub_mismatch(got, want, partial, ent):
    """the explanation when the completely evaluated cases disagree with the reference among themselves (only the
    roles those cases mention are looked for); None when they agree or nothing can be said"""
    g2 = {c: got[c] for c in got if c not in partial}
    w2 = {c: want[c] for c in want if c not in partial}
    txt = json.dumps(list(w2.values()))
    roles = [r for r in ent.get("roles", []) if re.search(r"(?<![A-Za-z0-9_])" + re.escape(r), txt)]
    match_modulo.untraced = []
    ren, why = match_modulo(g2, w2, roles, fixed_prefixes=tuple(ent.get("fixed", ["box.", "$"])))
    if ren is not None or match_modulo.untraced or "fewer than the quantities of the reference" in (why or ""):
        return None
    return why


def _independent(got, want, deps_by_case, fixed):
    """a case in which the code's value cannot depend on an attribute the reference value depends on: every operand
    is either traced to inputs, or an unknown local whose defining expressions were seen and mention other inputs
    only.  -> (case, missing attribute symbols) or None"""
    import re as _re

    for c in sorted(got):
        g = got[c]
        if g is None or "?" in A.canon(g):
            continue
        ref_inputs = set(_re.findall(r"@[A-Za-z_]\w*", json.dumps(want[c])))
        if not ref_inputs:
            continue
        bare = set()
        try:
            w = A.ref(want[c])
        except ValueError:
            w = None
        _bare_names(g, bare, w)
        ref_tokens = set(_re.findall(r"[A-Za-z_$@][A-Za-z0-9_.$@]*", json.dumps(want[c])))
        bare = {x for x in bare if x not in ref_tokens and not x.startswith(fixed)}
        if not bare:
            continue  # a fully traced value is compared as a value, not by what it depends on
        deps = deps_by_case.get(c) or {}
        if any(deps.get(x) is None for x in bare):
            continue
        have = set(_re.findall(r"@[A-Za-z_]\w*", A.canon(g)))
        for x in bare:
            have |= {d for d in deps[x] if d.startswith("@")}
        miss = ref_inputs - have
        if miss:
            return c, miss
    return None


def _components(prefix, got, want):
    """pairwise components of two values for per-component reporting"""
    if want is not None and not A.is_form(want) and want[0] in ("struct", "match") and got is not None and not A.is_form(got) and got[0] == want[0]:
        keys = sorted(k for k in set(want[1]) | set(got[1]) if not str(k).startswith("__"))
        for k in keys:
            yield from _components(f"{prefix}.{k}" if prefix else k, got[1].get(k), want[1].get(k))
        return
    if want is not None and not A.is_form(want) and want[0] == "tup" and got is not None and not A.is_form(got) and got[0] == "tup" and len(got[1]) == len(want[1]):
        for i, (g, w) in enumerate(zip(got[1], want[1])):
            yield from _components(f"{prefix}.{i}", g, w)
        return
    yield prefix, got, want


def check(prog, chk, pid, floor=None):
    with open(SPEC) as fh:
        spec = json.load(fh)["functions"]
    n = 0
    for path, ent in sorted(spec.items()):
        if pid not in ent["props"]:
            continue
        b = prog.maybe_body(path)
        if b is None:
            chk.anchor_missing("A17.algebra", f"{path} not found")
            continue
        chk.touch(b)
        ev = A.Evaluator(prog, opaque=ent.get("opaque", ()))
        summ = ev.summary(path)
        short = path.replace("svgdx::position::", "")
        for part in ("ret", "self"):
            if part not in ent:
                continue
            want = A.ref(ent[part])
            got = summ[part] if summ else None
            for comp, g, w in _components("", got, want):
                n += 1
                key = f"{short}:{part}{':' + comp if comp else ''}"
                if w is None:
                    chk.bad("A17.algebra", key, b.where(), f"{short}: the code has a case `{comp}` ({A.canon(g)}) the reference algebra does not define")
                    continue
                bare_ = set()
                _bare_names(g, bare_)
                h_ = ev.by_path.get(path)
                lets_ = {q.get("name") for st_ in (hirq.exprs(h_["body"], "Let") if h_ else ()) for q in hirq.walk(st_["pat"]) if isinstance(q, dict) and q.get("p") == "bind"}
                if not A.equal(g, w) and (bare_ & lets_):
                    # the value names a `let` of the function itself: the evaluator did not see what it was given
                    chk.undecided("A17.algebra", key, b.where(), f"{short} {comp or part}: the value rests on the local(s) {sorted(bare_ & lets_)} whose definition the affine evaluator could not follow ({A.canon(g)[:120]}); no verdict against the reference algebra")
                    continue
                if not A.equal(g, w) and (not _definite(g) or ev.incomplete):
                    chk.undecided("A17.algebra", key, b.where(), f"{short} {comp or part}: the affine evaluator could not follow the code to a definite value ({A.canon(g)[:120]}); no verdict against the reference {A.canon(w)[:120]}")
                    continue
                chk.ob(
                    A.equal(g, w),
                    "A17.algebra",
                    key,
                    b.where(),
                    f"{short} {comp or part} = {A.canon(w)}",
                    f"{short} {comp or part}: the code computes {A.canon(g)} where the reference algebra says {A.canon(w)}" + (f" ({ent['why']})" if ent.get("why") else ""),
                )
    if floor is not None:
        chk.floor("A17.algebra", n, floor, "component of a geometry primitive compared with the reference algebra")
    return n


# ---------------------------------------------------------------------------
# call-site algebra: the arguments a function passes to a watched callee, case by case over an enum-typed selector,
# compared with the reference modulo a one-to-one renaming of the role symbols (code-internal names never appear in
# the reference)
# ---------------------------------------------------------------------------
import itertools
import re


_BARE = re.compile(r"(?<![A-Za-z0-9_.@$'])[a-z_][a-z0-9_]*(?![A-Za-z0-9_.(':])")


def _bare_names(v, out, want=None):
    """operands that are a bare identifier (a local the evaluator named because it could not see what it holds), at
    any depth of tuples / structs / options / format pieces and inside function atoms; parts the reference leaves
    open (`?`) are not looked at"""
    if v is None:
        return
    if want is not None and not A.is_form(want) and want[0] == "any":
        return
    if A.is_form(v):
        for k in v:
            if isinstance(k, str):
                out.update(x for x in _BARE.findall(k) if x not in ("true", "false", "self"))  # `self` is the receiver, not an untraced local
        return
    sub = (lambda key: None) if want is None or A.is_form(want) or want[0] != v[0] else None
    if v[0] in ("tup", "fmt", "early"):
        ws = want[1] if (want is not None and not A.is_form(want) and want[0] == v[0] and len(want[1]) == len(v[1])) else [None] * len(v[1])
        for x, w in zip(v[1], ws):
            if not isinstance(x, str):
                _bare_names(x, out, w if not isinstance(w, str) else None)
    elif v[0] in ("struct", "match"):
        wd = want[1] if (want is not None and not A.is_form(want) and want[0] == v[0]) else {}
        for kk, x in v[1].items():
            _bare_names(x, out, wd.get(kk))
    elif v[0] == "some":
        _bare_names(v[1], out, want[1] if (want is not None and not A.is_form(want) and want[0] == "some") else None)
    elif v[0] == "if":
        _bare_names(v[1], out)
        _bare_names(v[2], out)


def _symbols(v, out):
    if v is None:
        return
    if A.is_form(v):
        for k in v:
            if k == A.ONE:
                continue
            for tok in re.findall(r"[A-Za-z_$@][A-Za-z0-9_.$@]*", str(k)):
                out.add(tok)
        return
    if v[0] == "obj":
        out.add(v[1])
    elif v[0] in ("tup",):
        for x in v[1]:
            _symbols(x, out)
    elif v[0] in ("struct", "match"):
        for x in v[1].values():
            _symbols(x, out)
    elif v[0] == "fmt":
        for x in v[1]:
            if not isinstance(x, str):
                _symbols(x, out)
    elif v[0] == "some":
        _symbols(v[1], out)
    elif v[0] == "if":
        _symbols(v[1], out)
        _symbols(v[2], out)


FUNCS = {"abs", "max", "min", "floor", "ceil", "ite", "lt", "le", "eq", "ne", "mul", "div", "rem", "sqrt", "hypot", "round", "calc_offset", "evaluate", "adjust"}


def _subst(x, ren):
    if isinstance(x, str):
        return re.sub(r"[A-Za-z_$@][A-Za-z0-9_.$@]*", lambda m: ren.get(m.group(0), m.group(0)), x)
    if isinstance(x, list):
        return [_subst(y, ren) for y in x]
    if isinstance(x, dict):
        return {k: _subst(v, ren) for k, v in x.items()}
    return x


def match_modulo(got_by_case, want_by_case, roles, fixed_prefixes=("box.", "$")):
    """find an injective renaming roles -> code symbols under which every case agrees; roles ending in `.` stand for
    objects (their fields follow).  Returns (renaming, None) or (None, explanation)"""
    syms = set()
    for g in got_by_case.values():
        _symbols(g, syms)
    # tokens the reference itself spells out (variant names, field names ...) are not candidates for a role
    ref_tokens = set()
    def _toks(x):
        if isinstance(x, str):
            ref_tokens.update(re.findall(r"[A-Za-z_$@][A-Za-z0-9_.$@]*", x))
        elif isinstance(x, list):
            for y in x:
                _toks(y)
        elif isinstance(x, dict):
            for k, y in x.items():
                _toks(y)
    _toks(list(want_by_case.values()))
    scalars = sorted(s for s in syms if s not in FUNCS and s not in ref_tokens and not s.startswith(fixed_prefixes) and not re.fullmatch(r"[0-9.]+", s))
    prefixes = sorted({s.rsplit(".", 1)[0] + "." for s in scalars if "." in s and "(" not in s and ")" not in s})
    s_roles = [r for r in roles if not r.endswith(".")]
    o_roles = [r for r in roles if r.endswith(".")]
    if len(scalars) < len(s_roles) or len(prefixes) < len(o_roles):
        # bare local names among them are values the evaluator could not trace to an input (`midpoint` out of a
        # `match helper(..)? { Some(..) => .., None => .. }`): what they stand for may well be the missing quantities
        match_modulo.untraced = sorted(s for s in scalars if "." not in s and "(" not in s and not s.startswith(("$", "@")))
        return None, f"the code's results mention only the symbols {scalars}, fewer than the quantities of the reference ({roles})"
    best = None
    tried = 0
    for operm in itertools.permutations(prefixes, len(o_roles)):
        oren = dict(zip(o_roles, operm))
        plain = [s for s in scalars if not s.startswith(tuple(operm))] if operm else scalars
        for perm in itertools.permutations(plain, len(s_roles)):
            tried += 1
            if tried > 200000:
                break
            ren = dict(zip(s_roles, perm))
            bad = []
            for case, want in want_by_case.items():
                try:
                    w = A.ref(_subst(_subst_prefix(want, oren), ren))
                except ValueError:
                    bad.append(case)
                    continue
                if not A.equal(got_by_case.get(case), w):
                    bad.append(case)
            if not bad:
                ren.update(oren)
                return ren, None
            if best is None or len(bad) < len(best[1]):
                best = (dict(ren, **oren), bad, oren, dict(zip(s_roles, perm)))
    if best is None:
        return None, "no candidate renaming"
    bare = set()
    for cname, g in got_by_case.items():
        try:
            w = A.ref(want_by_case[cname])
        except ValueError:
            w = None
        _bare_names(g, bare, w)
    bare = sorted(x for x in bare if x not in ref_tokens and not x.startswith(fixed_prefixes))
    if len(bare) > len(s_roles):
        # the code's value has plain local names as operands - values the evaluator could not trace to an input
        match_modulo.untraced = bare
    ren, bad, oren, sren = best
    def _refcanon(c):
        try:
            return A.canon(A.ref(_subst(_subst_prefix(want_by_case[c], oren), sren)))
        except ValueError:
            return "<unparseable under this reading>"
    det = "; ".join(f"{c}: code {A.canon(got_by_case.get(c))} vs reference {_refcanon(c)}" for c in bad[:4])
    return None, f"no consistent reading of {roles} makes all cases agree; closest ({ren}) fails for {det}"


def _subst_prefix(x, oren):
    if not oren:
        return x
    if isinstance(x, str):
        for k, v in oren.items():
            x = re.sub(r"(?<![A-Za-z0-9_.$])" + re.escape(k), v, x)
        return x
    if isinstance(x, list):
        return [_subst_prefix(y, oren) for y in x]
    if isinstance(x, dict):
        return {k: _subst_prefix(v, oren) for k, v in x.items()}
    return x


def _script(spec):
    """{"method": [true, false, ...]} -> evaluator script (the last value repeats)"""
    if not spec:
        return None
    out = {}
    for name, vals in spec.items():
        out[name] = {"tick": None, "values": [("bool", v) if isinstance(v, bool) else A.ref(v) for v in vals]}
    return out


_CTOR_FIELD = {}


def ctor_field(prog, ctor, text, fld):
    """the private representation of a field is whatever the constructor makes of the string (`shape: String`, or an
    enum the name is mapped into): ask the constructor.  Falls back to the string itself."""
    key = (id(prog), ctor, text, fld)
    if key not in _CTOR_FIELD:
        out = ("str", text)
        ev0 = A.Evaluator(prog)
        if ctor in ev0.by_path:
            s0 = ev0.summary(ctor, args=[("str", text)])
            r0 = s0["ret"] if s0 else None
            if r0 is not None and not A.is_form(r0) and r0[0] == "struct":
                v1 = r0[1].get(fld)
                if v1 is not None and not A.is_form(v1) and v1[0] in ("str", "variant"):
                    out = v1
        _CTOR_FIELD[key] = out
    return _CTOR_FIELD[key]


def _case_value(prog, ent, case_name, case):
    presets = {}
    if isinstance(case, dict) and case.get("preset"):
        presets[ent["selector_type"]] = ("variant", case["preset"])
    elif ent.get("selector_type") and not isinstance(case, dict):
        presets[ent["selector_type"]] = ("variant", case_name)
    name_case = (case.get("name") if isinstance(case, dict) else None) or ent.get("name")
    opaque = list(ent.get("opaque", ()))
    if ent.get("opaque_prefix"):
        opaque += [q for q in A.Evaluator(prog).by_path if q.startswith(ent["opaque_prefix"])]
    ev = A.Evaluator(prog, presets=presets, type_alias=ent.get("alias", {}), watch=(ent.get("watch", "-"),), opaque=opaque, name_case=name_case, transparent=ent.get("transparent", ("fstr",)), iflet=(case.get("iflet") if isinstance(case, dict) else None) or ent.get("iflet"), absent=(case.get("absent", ()) if isinstance(case, dict) else ()), present=(case.get("present") if isinstance(case, dict) else None), script=_script((case.get("script") if isinstance(case, dict) else None) or ent.get("script")), keep_early_none=bool(ent.get("keep_early_none")), attr_values=(case.get("values") if isinstance(case, dict) else None), keyed_watch=(ent.get("collect") == "keyed"))
    h = ev.by_path.get(ent["function"])
    argv = None
    if isinstance(case, dict) and case.get("args"):
        n = len([p for p in h["params"] if p.get("name") != "self"])
        argv = []
        for k in range(1, n + 1):
            v = case["args"].get(str(k))
            if isinstance(v, bool):
                argv.append(("bool", v))
            elif isinstance(v, str) and v.startswith("str:"):
                argv.append(("str", v[4:]))
            elif isinstance(v, str):
                argv.append(("obj", v))
            else:
                argv.append(("obj", f"${k}"))
    if ent.get("args_some_box") and argv is None:
        # write_root_svg(first_svg, bbox: Option<BoundingBox>, writer): the content box is present
        argv = [("obj", "$1"), ("some", ("obj", "box")), ("obj", "$3")]
    self_value = None
    if isinstance(case, dict) and case.get("self"):
        fields = {}
        for k, v in case["self"].items():
            if v == "none":
                fields[k] = ("none",)
            elif isinstance(v, str) and v.startswith("some:"):
                fields[k] = ("some", A.ref(v[5:]))
            elif isinstance(v, str) and v.startswith("str:"):
                fields[k] = ("str", v[4:])
            elif isinstance(v, str) and v.startswith("variants:"):
                fields[k] = ("tup", [("variant", x) for x in v[9:].split(",") if x])
            else:
                fields[k] = A.ref(v)
        for fld, ctor in (ent.get("self_ctor") or {}).items():
            v0 = fields.get(fld)
            if v0 is not None and not A.is_form(v0) and v0[0] == "str":
                fields[fld] = ctor_field(prog, ctor, v0[1], fld)
        self_value = ("struct", fields)
    summ = ev.summary(ent["function"], self_value=self_value, args=argv)
    _case_value.incomplete = list(ev.incomplete)
    _case_value.unk_deps = dict(ev.unk_deps)
    _case_value.unfollowed = set(ev.unfollowed_local)
    if "ret" in ent:
        r = summ["ret"] if summ else None
        if ent["ret"] == "all":
            return r
        if r is None or A.is_form(r) or r[0] != "tup":
            return None
        return ("tup", [r[1][i] if i < len(r[1]) else None for i in ent["ret"]])
    calls = [c for c in ev.calls if c["name"] == ent["watch"]]
    if ent.get("unconditional") and any(c.get("cond") for c in calls):
        # the watched call sits under a condition the evaluator cannot decide: in this case it must happen on every path
        _case_value.conditional = True
        return None
    if ent.get("collect") == "keyed":
        out = {}
        for c in calls:
            if len(c["args"]) >= 2 and c["args"][0] is not None and not A.is_form(c["args"][0]) and c["args"][0][0] == "str":
                out[c["args"][0][1]] = c["args"][1]
            elif len(c["args"]) >= 2:
                # a write whose key the evaluator could not determine: the collection is partial
                _case_value.incomplete.append(f"a {c['name']}() call at line {c.get('line')} has a key the evaluator could not determine")
        return ("struct", out)
    if ent.get("collect") == "list":
        # the first argument of every watched call, in call order
        return ("tup", [c["args"][0] if c["args"] else None for c in calls])
    if ent.get("collect") == "pairs":
        # one call whose argument `args[0]` is a list of (key, value) pairs
        out = {}
        for c in calls:
            i = ent["args"][0]
            lst = c["args"][i] if i < len(c["args"]) else None
            if lst is None or A.is_form(lst) or lst[0] != "tup":
                continue
            for pr in lst[1]:
                if pr is not None and not A.is_form(pr) and pr[0] == "tup" and len(pr[1]) == 2 and pr[1][0] is not None and not A.is_form(pr[1][0]) and pr[1][0][0] == "str":
                    out[pr[1][0][1]] = pr[1][1]
        return ("struct", out)
    if len(calls) != ent.get("calls", 1):
        return None
    c = calls[ent.get("call_index", 0)]
    return ("tup", [c["args"][i] if i < len(c["args"]) else None for i in ent["args"]])


def check_sites(prog, chk, pid):
    with open(SPEC) as fh:
        sites = json.load(fh).get("sites", {})
    n = 0
    for name, ent in sorted(sites.items()):
        if pid not in ent["props"]:
            continue
        path = ent["function"]
        b = prog.maybe_body(path)
        if b is None:
            chk.anchor_missing("A17.site-algebra", f"{path} not found")
            continue
        chk.touch(b)
        got = {}
        want = {}
        partial = {}
        deps_by_case = {}
        conditional = []
        for cname, case in ent["cases"].items():
            _case_value.incomplete = []
            _case_value.unk_deps = {}
            _case_value.conditional = False
            got[cname] = _case_value(prog, ent, cname, case)
            if _case_value.conditional:
                conditional.append(cname)
            deps_by_case[cname] = _case_value.unk_deps
            ref_fns = set(re.findall(r"([A-Za-z_][A-Za-z0-9_]*)\(", json.dumps([c_["want"] if isinstance(c_, dict) else c_ for c_ in ent["cases"].values()])))  # functions the reference itself is written in
            unf = [f_ for f_ in sorted(getattr(_case_value, "unfollowed", ())) if f_ not in ref_fns and got[cname] is not None and re.search(r"(?<![A-Za-z0-9_])" + re.escape(f_) + r"\(", A.canon(got[cname]))]
            if unf:
                partial[cname] = [f"the value rests on {unf[0]}(), a function of the crate whose body the evaluator could not summarise"]
            elif _case_value.incomplete or not _definite(got[cname]):
                partial[cname] = _case_value.incomplete[:1] or ["part of the value is unknown to the evaluator"]
            want[cname] = case["want"] if isinstance(case, dict) else case
        match_modulo.untraced = []
        ren, why = match_modulo(got, want, ent.get("roles", []), fixed_prefixes=tuple(ent.get("fixed", ["box.", "$"])))
        if ren is None and match_modulo.untraced and len(match_modulo.untraced) > len([r for r in ent.get("roles", []) if not r.endswith(".")]):
            partial.setdefault(sorted(ent["cases"])[0], [f"the value mentions local names the evaluator could not trace to an input: {match_modulo.untraced[:4]}"])
        n += len(ent["cases"])
        short = path.replace("svgdx::", "")
        if ren is not None:
            for cname in ent["cases"]:
                chk.ok("A17.site-algebra", f"{name}:{cname}", b.where(), f"{short} [{cname}]: {ent.get('watch', 'result')} <- {A.canon(got[cname])} equals the reference" + (f" with {ren}" if ren else ""))
        elif conditional:
            # the case fixes the element's name and which attributes it has - everything the reference value depends on -
            # and there the watched call is to happen whatever else holds
            chk.bad("A17.site-algebra", f"{name}", b.where(), f"{short} [{conditional[0]}]: whether {ent.get('watch')}() is called depends on something the case does not determine (state other than the element's name and the attributes listed), in {len(conditional)} of {len(ent['cases'])} cases; by the reference ({ent.get('why', '')}) it happens on every path")
        elif "ret" in ent and not all(_same_shape(got[c], A.ref(want[c])) for c in ent["cases"] if _reads(want[c])):
            chk.undecided("A17.site-algebra", name, b.where(), f"{short}: the result is carried in a differently shaped value than the reference describes (other field names, a struct for a tuple ...): e.g. {A.canon(got[sorted(ent['cases'])[0]])[:200]}; it cannot be compared part by part")
        elif partial and len(partial) < len(ent["cases"]) and _sub_mismatch(got, want, partial, ent):
            # the cases the evaluator did follow to a definite value disagree with the reference among themselves
            why2 = _sub_mismatch(got, want, partial, ent)
            chk.bad("A17.site-algebra", f"{name}", b.where(), f"{short}: the values {'passed to ' + ent['watch'] + '()' if ent.get('watch') else 'returned'} disagree with the reference algebra ({ent.get('why', '')}) in the cases the evaluator follows completely ({len(ent['cases']) - len(partial)} of {len(ent['cases'])}): {why2}")
        elif partial and _independent(got, want, deps_by_case, tuple(ent.get("fixed", ["box.", "$"]))):
            c1, miss = _independent(got, want, deps_by_case, tuple(ent.get("fixed", ["box.", "$"])))
            chk.bad("A17.site-algebra", f"{name}", b.where(), f"{short} [{c1}]: the reference value ({ent.get('why', '')}) depends on {sorted(miss)}, but nothing the code's value {A.canon(got[c1])[:160]} is computed from - the unknown parts included: they are defined from {sorted(set().union(*[d for d in deps_by_case[c1].values() if d]) or [])[:8]} - can depend on it")
        elif partial:
            # the evaluator could not follow the code to a definite value in some case (an idiom it does not know): a
            # disagreement that rests on an unknown is not evidence of a wrong value
            c0 = sorted(partial)[0]
            chk.undecided("A17.site-algebra", name, b.where(), f"{short}: the affine evaluator could not follow the code in {len(partial)} of {len(ent['cases'])} cases (e.g. {c0}: {partial[c0][0]}; value so far {A.canon(got[c0])[:160]}); no verdict against the reference algebra")
        else:
            chk.bad("A17.site-algebra", f"{name}", b.where(), f"{short}: the values {'passed to ' + ent['watch'] + '()' if ent.get('watch') else 'returned'} disagree with the reference algebra ({ent.get('why', '')}): {why}")
    return n


FLOAT_TRUNCATION_OK = {
    "svgdx::functions::eval_function": (3, "select(n, ..) index and the bounds of randint(): documented integer arguments"),
    "svgdx::types::fstr": (2, "the output formatter's integer fast path (value equal to its truncation is printed without decimals)"),
}


def check_float_truncation(prog, chk):
    """geometry is computed in f32 throughout: a float is cast to an integer type (truncation, saturation) only at the
    reviewed places.  One more such cast - e.g. a distance cast to u64 to get an `Ord` key - makes different values
    compare equal and the choice between them depend on their order"""
    import collections
    import re

    strip = lambda p: re.sub(r"(::\{closure#\d+\})+", "", p)  # noqa: E731
    cnt = collections.Counter()
    where = {}
    total = 0
    for b in prog.bodies.values():
        if b.unit != "svgdx-lib":
            continue
        for x, i, st in b.all_stmts():
            rv = st.get("rv") or {}
            if rv.get("k") != "cast":
                continue
            total += 1
            pl = A_op_place(rv.get("op"))
            sty = b.local_ty(pl[0]) if pl and not pl[1] else ((rv.get("op") or {}).get("k") or {}).get("ty")
            dty = rv.get("ty") or b.local_ty(st["lhs"][0])
            if sty in ("f32", "f64") and dty and re.fullmatch(r"[iu](8|16|32|64|128|size)", dty):
                f = strip(b.path)
                cnt[f] += 1
                where.setdefault(f, b.where(x, st.get("line")))
    chk.floor("A14.float-truncation", total, 20, "cast in the library (positive control of the matcher)")
    for f in sorted(set(cnt) | set(FLOAT_TRUNCATION_OK)):
        allowed, why = FLOAT_TRUNCATION_OK.get(f, (0, ""))
        if f not in FLOAT_TRUNCATION_OK:
            allowed = sum(FLOAT_TRUNCATION_OK.get(o, (0, ""))[0] for o in prog.owners_of(f))
        chk.ob(cnt[f] <= allowed, "A14.float-truncation", f.replace("svgdx::", ""), where.get(f, "-"), f"{cnt[f]} float -> integer cast(s) (reviewed: {allowed}; {why})", f"{f.replace('svgdx::', '')} casts a float to an integer type at {cnt[f]} place(s) (reviewed: {allowed}): the fraction is cut off (and the range saturates), so distinct lengths / distances / coordinates become equal - a choice made on such a key (nearest side, shortest link) is decided by enumeration order instead", by="table")



def check_extent_seeds(prog, chk):
    """the running maximum of an extent starts below every value: `f32::MIN` (or NEG_INFINITY) - not
    `f32::MIN_POSITIVE`, the smallest *positive* number, which no coordinate below ~0 can replace.  Reported when the
    constant is the initial value of a variable that is updated afterwards (reassigned, written through, or mutably
    borrowed) in a function that takes float maxima; handing it to `max` directly (`x.max(f32::MIN_POSITIVE)`, a
    clamp away from zero) is something else and not in question"""
    from sa import rules as R
    from sa.prog import Callee, op_place as _opl
    n = 0
    for b in prog.bodies.values():
        if b.unit != "svgdx-lib":
            continue
        seeds = []
        for x, i, st in b.all_stmts():
            rv = st.get("rv") or {}
            ops = [rv.get("op")] if rv.get("k") == "use" else (rv.get("ops", []) if rv.get("k") == "aggr" else [])
            for o in ops:
                k = o.get("k") if isinstance(o, dict) else None
                if isinstance(k, dict) and str(k.get("named", "")).endswith("::MIN_POSITIVE") and "lhs" in st:
                    seeds.append((x, st))
        if not seeds:
            continue
        n += len(seeds)
        chk.touch(b)
        maxes = b.call_sites(lambda c: c.path.split("::")[-1] == "max" and ("f32" in c.path or "f64" in c.path))
        for (x, st) in seeds:
            targets = {st["lhs"][0]}
            for (b2, i2, node, how, _c) in R.forward_value_uses(b, st["lhs"][0]):
                if i2 != R.TERM and "lhs" in node:
                    targets.add(node["lhs"][0])
            upd = []
            for l in targets:
                if not b.local_name(l):
                    continue
                ndefs = len(b.defs_of(l))
                written = any(how in ("lhs-base",) for (_b, _i, _n, how) in R.uses_of(b, l))
                mutref = any((nd.get("rv") or {}).get("k") == "ref" and (nd.get("rv") or {}).get("mut") for (_b, _i, nd, how) in R.uses_of(b, l) if how == "ref")
                if ndefs > 1 or written or mutref:
                    upd.append(b.local_name(l))
            if upd and maxes:
                chk.bad("A16.extent-seed", f"{b.short}:{upd[0]}", b.where(x, st.get("line")), f"`{upd[0]}` starts at MIN_POSITIVE (the smallest positive float, ~1e-38) and is updated afterwards in a function that takes maxima: as the seed of a running maximum it is never replaced by a coordinate at or below zero - the extent of a shape left of / above the origin ends at ~0")
    chk.ok("A16.extent-seed", "scan", "-", f"{n} use(s) of MIN_POSITIVE in the library examined")
