"""Shared rule A17: the geometry primitives agree, as algebraic terms, with the reference algebra in
policy/spec/geometry_algebra.json (affine abstract evaluation of the HIR; nothing is executed)."""
import json
import os

from sa import algebra as A

SPEC = os.path.join(os.path.dirname(os.path.dirname(os.path.abspath(__file__))), "spec", "geometry_algebra.json")


def _components(prefix, got, want):
    """pairwise components of two values for per-component reporting"""
    if want is not None and not A.is_form(want) and want[0] in ("struct", "match") and got is not None and not A.is_form(got) and got[0] == want[0]:
        keys = sorted(set(want[1]) | set(got[1]))
        for k in keys:
            yield from _components(f"{prefix}.{k}" if prefix else k, got[1].get(k), want[1].get(k))
        return
    if want is not None and not A.is_form(want) and want[0] == "tup" and got is not None and not A.is_form(got) and got[0] == "tup" and len(got[1]) == len(want[1]):
        for i, (g, w) in enumerate(zip(got[1], want[1])):
            yield from _components(f"{prefix}.{i}", g, w)
        return
    yield prefix, got, want


def check(prog, chk, pid, floor=None):
    with open(SPEC) as fh:
        spec = json.load(fh)["functions"]
    n = 0
    for path, ent in sorted(spec.items()):
        if pid not in ent["props"]:
            continue
        b = prog.maybe_body(path)
        if b is None:
            chk.anchor_missing("A17.algebra", f"{path} not found")
            continue
        chk.touch(b)
        ev = A.Evaluator(prog, opaque=ent.get("opaque", ()))
        summ = ev.summary(path)
        short = path.replace("svgdx::position::", "")
        for part in ("ret", "self"):
            if part not in ent:
                continue
            want = A.ref(ent[part])
            got = summ[part] if summ else None
            for comp, g, w in _components("", got, want):
                n += 1
                key = f"{short}:{part}{':' + comp if comp else ''}"
                if w is None:
                    chk.bad("A17.algebra", key, b.where(), f"{short}: the code has a case `{comp}` ({A.canon(g)}) the reference algebra does not define")
                    continue
                chk.ob(
                    A.equal(g, w),
                    "A17.algebra",
                    key,
                    b.where(),
                    f"{short} {comp or part} = {A.canon(w)}",
                    f"{short} {comp or part}: the code computes {A.canon(g)} where the reference algebra says {A.canon(w)}" + (f" ({ent['why']})" if ent.get("why") else ""),
                )
    if floor is not None:
        chk.floor("A17.algebra", n, floor, "component of a geometry primitive compared with the reference algebra")
    return n
