"""C05 Output is a fixed point: re-processing svgdx output changes nothing (mechanisms)."""
from sa import rules as R
from sa.prog import P, Callee, op_place, op_const, const_str
from props import xmlsink as X
from props import C02, C03

EXPLANATION = (
    "A writer that is not the inverse of the reader cannot be idempotent on its own output, so this check decides the "
    "mechanisms that make T(x) a fixed point: (1) escape balance of every channel between reader and writer and the sink "
    "discipline of the writer (shared with C02/C03); (2) the writer's root satisfies the reader's bypass predicate: the "
    "namespace literal inserted by write_root_svg is the one is_real_svg compares with, xmlns is inserted unless present, and "
    "is_real_svg skips non-element events; on the second pass the real-SVG edges of process_events/postprocess reach nothing "
    "but conversion and write_to (whatever the configuration: no debug comments, no root synthesis); (3) the writer's "
    "normalisations are idempotent: the attribute sort is stable, blank-line removal is applied once to the coalesced text "
    "inside write_to only, and the class list can never hold duplicates (the reader de-duplicates). Undecided: byte equality "
    "of T(T(x)) and T(x) over all features (compares two executions)."
)
TRUSTED = ["quick-xml reader/writer are inverse on the event kinds passed through as Event"]
ASSUMPTIONS = []


def run(prog, chk):
    chk.rule(attr_order_stable, prog, chk)
    chk.rule(X.check_sinks, prog, chk)
    chk.rule(X.check_readers, prog, chk)
    chk.rule(X.text_bypass, prog, chk)
    chk.rule(C02.root_synthesis, prog, chk)
    from props import geomalg
    chk.rule(geomalg.check_sites, prog, chk, "C05")  # the generated root satisfies the real-SVG predicate: xmlns literal, per presence case (A17 site root-extent)
    chk.rule(C03.bypass, prog, chk)
    chk.rule(C03.stable_sort, prog, chk)
    chk.rule(C03.real_svg_scan, prog, chk)
    chk.rule(C03.reader_defaults, prog, chk)
    chk.rule(C03.no_precheck, prog, chk)
    # the second pass is a pass-through of the first pass' output: everything C03 needs for a verbatim copy
    chk.rule(C03.qualified_names, prog, chk)
    chk.rule(C03.attrmap_keys_verbatim, prog, chk)
    chk.rule(C03.writer_is_read_only, prog, chk)
    chk.rule(C03.top_level_predicate, prog, chk)
    chk.rule(C03.inner_events_guard, prog, chk)
    chk.rule(C03.passthrough_one_to_one, prog, chk)  # the second pass hands the first pass' output on event by event
    chk.rule(C03.passthrough_str_ops, prog, chk)
    chk.rule(C02.no_double_hyphen_literals, prog, chk)  # an ill-formed generated comment makes the second pass fail
    chk.rule(C02.other_is_whole_input_event, prog, chk)  # every tag of the first pass' output went through the serialiser the second pass uses (nothing is emitted as written)
    chk.rule(generated_comment_ops, prog, chk)
    chk.rule(normalisation_idempotent, prog, chk)
    # findings of C02/C03 that do not break the fixed point are not obligations of this property
    drop = {
        "A13.root-attrs/postprocess:real-svg-bypass",  # version on a real-SVG root: T(x) of an svgdx document always has one
        "A11.unescape-fallback/unescaped_text:raw-on-error",  # `&foo;` -> `&amp;foo;` is itself a fixed point on the second pass
        "A13.root-closed/postprocess:empty-root",
        "A13.root-closed/write_root_svg:empty-root-attrs",
    }
    chk.obs = [o for o in chk.obs if not (o["key"] in drop)]
    from props import strops
    chk.rule(strops.check_for, prog, chk, "C05")  # A14.str-ops: how this property's strings are cut up is a reviewed, frozen inventory
    from props import C04 as _C04
    chk.rule(_C04.filter_closed, prog, chk)  # an attribute of the first pass' output that the second pass withholds (data-src-line from --add-metadata) breaks the fixed point


def normalisation_idempotent(prog, chk):
    wt = prog.body("svgdx::events::OutputList::write_to")
    blr = prog.body("svgdx::events::OutputList::blank_line_remover")
    callers = sorted(x.path for x in prog.callers_of(blr))
    chk.ob(callers == [wt.path], "A10.blank-line-remover", "callers", blr.where(), "blank_line_remover is applied only inside write_to (so both passes normalise identically)", f"blank_line_remover callers: {callers}")
    # it is applied to the coalescing buffer, not to individual Text events
    pushes = wt.call_sites(lambda c: c.path == "std::string::String::push_str")
    bufs = {R.origin_local(wt, t["args"][0]) for (bb, t, c) in pushes}
    calls = wt.call_sites(R.path_is(blr.path))
    ok = len(bufs) == 1 and None not in bufs and len(calls) >= 1
    for (bb, t, c) in calls:
        ok = ok and R.origin_local(wt, t["args"][0]) in bufs
    # the pushes into the buffer take the raw event content (not an already normalised string)
    for (bb, t, c) in pushes:
        o = R.origin(wt, t["args"][1], carriers={"deref": 0, "as_str": 0, "as_ref": 0, "borrow": 0})
        if o[0] == "call" and "fn" in o[2]:
            cal = Callee(o[2]["fn"])
            if cal.local and cal.decl_path != "std::clone::Clone::clone":
                ok = False  # the pushed text is already the result of a local transformation (e.g. blank_line_remover)
    chk.ob(
        ok,
        "A13.coalesce-then-normalise",
        "write_to",
        wt.where(),
        "text events are coalesced first and blank-line removal runs once on the joined text (the second pass sees the same joined text as one event)",
        "blank-line removal is applied per text event before coalescing: a line whose trailing blanks and newline come from adjacent events is trimmed only on the second pass, so the output is not a fixed point",
    )
    # the class list cannot hold duplicates: only ClassList::insert appends, guarded by contains()
    CL = "svgdx::types::ClassList"
    w = R.field_writers(prog, "classes", CL)
    appenders = {}
    for body in prog.bodies.values():
        for (bb, t, c) in body.call_sites(lambda c: c.path.startswith("std::vec::Vec") and c.path.split("::")[-1] in ("push", "insert", "splice", "extend", "extend_from_slice", "append", "resize")):
            o = R.origin(body, t["args"][0], carriers={"deref_mut": 0, "deref": 0})
            if o[0] == "field" and o[1][1][-1] == ".classes" and (prog.field_owner(body, o[1]) in (None, CL)):
                appenders.setdefault(body.path, []).append((bb, t))
    only_insert = set(appenders) == {CL + "::insert"}
    guarded = False
    if only_insert:
        ins = prog.body(CL + "::insert")
        (pb, pt) = appenders[ins.path][0]
        from sa import discharge as D
        conds = D.dom_conditions(ins, pb)
        guarded = any(kind == "call" and payload[0] == "contains" and not truth for kind, payload, truth in conds)
        if not guarded:
            # the same membership test spelled as a search: `iter().position(..)` / `find(..)` came back empty
            for kind, payload, truth in conds:
                if kind == "call" and payload[0] in ("is_none", "is_some") and truth == (payload[0] == "is_none") and payload[1] and payload[1][0][0] == "local":
                    o = R.origin(ins, {"c": [payload[1][0][1], []]}, carriers={})
                    if o[0] == "call" and "fn" in o[2] and Callee(o[2]["fn"]).path.split("::")[-1] in ("position", "find", "rposition"):
                        it = R.origin(ins, o[2]["args"][0], carriers={"iter": 0, "deref": 0, "into_iter": 0})
                        if it[0] == "field" and it[1][1] and it[1][1][-1] == ".classes":
                            guarded = True
    chk.ob(
        only_insert and guarded,
        "A10.classlist-unique",
        "ClassList.classes",
        "src/types.rs",
        "classes are appended only by ClassList::insert, under `!contains(class)`: the written class attribute never repeats a token (the reader would de-duplicate it on the next pass)",
        f"the class list can receive duplicates (appenders: {sorted(appenders)}; guarded by contains: {guarded}): `class=\"a a\"` written on the first pass is re-read as `class=\"a\"`",
    )


def generated_comment_ops(prog, chk):
    """the --debug source echo is written into a comment: every `<`, `>` and `"` of the element's source text is removed /
    replaced first (two replace() calls), so the echo cannot end the comment early; frozen so that a weaker sanitiser is noticed"""
    b = prog.body("svgdx::element::SvgElement::element_events")
    chk.touch(b)
    import collections
    from props.C19 import TEXT_ALTERING
    seen = collections.Counter(c.path.split("::")[-1] for (bb, t, c) in b.call_sites(lambda c: c.path.split("::")[-1] in TEXT_ALTERING and ("str" in c.path.lower() or "string" in c.path.lower())))
    chk.ob(dict(seen) == {"replace": 2}, "A14.debug-echo", "element_events", b.where(), "the debug echo is sanitised by the two reviewed replace() calls (quotes -> backticks, all angle brackets removed)", f"the string operations that sanitise the --debug source echo changed ({dict(seen)}, reviewed: two replace() calls): a `>` or `-->` inside an attribute value can now end the comment early, so the output is not stable under re-processing")



def attr_order_stable(prog, chk):
    """the order in which an element's attributes are written is reproduced when the output is read back and every
    element is rebuilt by successive inserts: keys that share an ordering slot keep the order they were given.  That
    holds when no two named keys share a slot, or when insert orders with a *stable* sort; a slot shared by two keys
    together with an insert that places a new key in front of its equals (a lower-bound search, an unstable sort) swaps
    the pair on every pass"""
    from sa import hirq
    AM = "svgdx::types::AttrMap"
    pr = prog.maybe_body(AM + "::priority")
    ins = prog.maybe_body(AM + "::insert")
    if pr is None or ins is None:
        chk.undecided("A16.attr-order", "AttrMap", "src/types.rs", "AttrMap::priority / AttrMap::insert are not there under these names: how attributes are ordered is not read here")
        return
    chk.touch(pr, ins)
    slots = {}
    for m, arms in hirq.str_matches(prog.hir[pr.id]):
        for ls, a in arms:
            ints = [n["lit"].get("int") for n in hirq.exprs(a["body"], "Lit") if isinstance(n.get("lit"), dict) and "int" in n["lit"]]
            if len(ints) != 1:
                continue
            for l in ls:
                if l != hirq.WILD:
                    slots.setdefault(ints[0], []).append(l)
    shared = {k: v for k, v in slots.items() if len(v) > 1}
    region = [ins] + [b for b in prog.bodies.values() if b.path.startswith(AM + "::") and ins.call_sites(R.path_is(b.path))]
    stable = any(b.call_sites(lambda c: c.path.split("::")[-1] in ("sort_by_key", "sort_by", "sort", "sort_by_cached_key") and "slice" in c.path) for b in region)
    placed = any(b.call_sites(lambda c: c.path.split("::")[-1] in ("partition_point", "binary_search_by_key", "binary_search_by", "sort_unstable_by_key", "sort_unstable_by", "sort_unstable")) for b in region)
    if shared and placed and not stable:
        chk.bad("A16.attr-order", "AttrMap::insert", ins.where(), f"the keys {sorted(x for v in shared.values() for x in v)} share an ordering slot and insert() places a new key by search / unstable sort rather than by a stable sort: of two such attributes the one inserted later ends up first, so writing an element and reading it back swaps them - on every pass")
    else:
        chk.ok("A16.attr-order", "AttrMap::insert", ins.where(), f"{len(slots)} named slots, shared: {sorted(shared.values()) or 'none'}; insert orders by {'a stable sort' if stable else 'position'}")
