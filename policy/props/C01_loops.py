"""C01 part 3 - A4 loop progress: every loop is iterator-driven or has a verified progress witness."""
from sa import rules as R
from sa.prog import P, Callee, op_place, op_const, const_int, const_str

INFINITE_ITERS = ("std::iter::Cycle<", "std::iter::Repeat<", "std::iter::RepeatWith<", "std::iter::Successors<", "std::iter::FromFn<", "std::ops::RangeFrom<", "std::iter::RepeatN<")

ADVANCE_DECL = "svgdx::path::PathSyntax::advance"
STABLE_PREDICATES = ("at_end", "at_command")  # cursor predicates: unchanged until the next progress call

# function -> list of witnesses its non-iterator loops may use (each loop must satisfy one)
WITNESS = {
    "svgdx::path::PathParser::evaluate": [("must-consume", dict(callee="svgdx::path::PathParser::process_instruction", cond="at_end"))],
    "svgdx::bearing::PathBearing::evaluate": [("must-consume", dict(callee="svgdx::bearing::PathBearing::process_instruction", cond="at_end"))],
    "svgdx::bearing::PathBearing::process_instruction": [("cursor-advance", dict())],
    "svgdx::path::PathSyntax::read_number": [("cursor-advance-or-exit", dict())],
    "svgdx::path::PathSyntax::skip_whitespace": [("cursor-advance", dict())],
    "svgdx::expression::expr_list": [("token-advance", dict())],
    "svgdx::expression::logical": [("token-advance", dict())],
    "svgdx::expression::term": [("token-advance", dict())],
    "svgdx::expression::factor": [("token-advance", dict())],
    "svgdx::element::expand_relspec": [("shrinking-suffix", dict(var="value"))],
    "svgdx::events::OutputList::blank_line_remover": [("shrinking-suffix", dict(var="s"))],
    "svgdx::expression::eval_vars": [("shrinking-suffix", dict(var="value"))],
    "svgdx::expression::eval_expr": [("shrinking-suffix", dict(var="value"))],
    "svgdx::text::text_string": [("shrinking-suffix", dict(var="remain"))],
    "svgdx::events::tagify_events": [("counter", dict())],
    "<svgdx::loop_el::LoopElement as svgdx::transform::EventGen>::generate_events": [("limit-counter", dict(limit=".loop_limit"))],
    "svgdx::transform::process_tags": [("len-exit", dict())],
    "svgdx::element::SvgElement::get_target_element": [("visited-set", dict())],
    "svgdx::events::InputList::from_reader": [("external-reader", dict(reader="read_event_into"))],
    "svgdx::cli::run": [("daemon", dict(reason="--watch mode: waits for file-system events until the process is killed; by design, not a transform path"))],
}


_PROG = None


def run(prog, chk, reach):
    global _PROG
    _PROG = prog
    n_iter = n_other = 0
    mc = must_consume_set(prog)
    for bid in sorted(reach):
        body = prog.bodies[bid]
        if not body.loops:
            continue
        for h, blocks in body.loops.items():
            where = body.where(h)
            ordinal = sorted(body.loops).index(h)
            key = f"{body.short}#loop{ordinal}"
            why = iterator_driven(body, h, blocks)
            if why:
                n_iter += 1
                chk.ok("A4.loop", key, where, "iterator-driven: " + why)
                continue
            n_other += 1
            if is_coroutine_poll_loop(body, h, blocks):
                chk.ok("A4.loop", key, where, "async state machine: the cycle is an `.await` poll loop that yields to the executor on Pending", by="table")
                continue
            specs = WITNESS.get(body.path)
            if not specs:
                chk.bad("A4.loop", key, where, f"loop (lines {loop_lines(body, blocks)}) is not driven by a finite iterator and has no progress witness: it may never terminate on some input. Add a verified witness to props/C01_loops.py")
                continue
            results = []
            for kind, par in specs:
                try:
                    ok, detail = VERIFY[kind](prog, body, h, blocks, par, mc)
                except Exception as e:
                    ok, detail = False, f"witness evaluation failed: {e!r}"
                results.append((ok, kind, detail))
                if ok:
                    break
            ok, kind, detail = results[-1]
            if ok:
                chk.ok("A4.loop", key, where, f"witness `{kind}`: {detail}", by="table" if kind == "daemon" else "rule")
            else:
                chk.bad("A4.loop", key, where, f"loop (lines {loop_lines(body, blocks)}): progress witness `{kind}` does not hold: {detail}")
    chk.floor("A4.loop.iterator", n_iter, 60, "iterator-driven loop")
    chk.floor("A4.loop.witnessed", n_other, 20, "loop needing a progress witness")
    # the consumers the scanners rely on
    for p, why in sorted(mc.items()):
        chk.ok("A4.must-consume", p.replace("svgdx::", ""), "-", why)
    chk.floor("A4.must-consume", len(mc), 8, "function proven to consume input on every Ok return")


def loop_lines(body, blocks):
    ls = sorted({body.term(x).get("line") for x in blocks if body.term(x).get("line")})
    return f"{ls[0]}-{ls[-1]}" if ls else "?"


def every_cycle_passes(body, h, blocks, must):
    """does every cycle through the header pass one of the blocks in `must`?"""
    must = set(must)
    if h in must:
        return True
    seen = set()
    work = [s for s in body.succ[h] if s in blocks and s not in must]
    while work:
        x = work.pop()
        if x in seen:
            continue
        seen.add(x)
        if x == h:
            return False
        for s in body.succ[x]:
            if s in blocks and s not in must:
                work.append(s)
    return True


def _split_targs(ty):
    """head and top-level generic arguments of `Head<A, B, ..>`"""
    i = ty.find("<")
    if i < 0 or not ty.endswith(">"):
        return ty, []
    head, inner = ty[:i], ty[i + 1:-1]
    args, depth, cur = [], 0, ""
    for ch in inner:
        if ch in "<([":
            depth += 1
        elif ch in ">)]":
            depth -= 1
        if ch == "," and depth == 0:
            args.append(cur.strip())
            cur = ""
        else:
            cur += ch
    if cur.strip():
        args.append(cur.strip())
    return head, args


def iter_type_finite(ty):
    """is an iterator of this (resolved) type finite whenever its finite components are?  Zip is as short as its
    shorter side, Take is bounded, adaptors inherit from their inner iterator, Chain needs both"""
    ty = ty.strip().lstrip("&").replace("mut ", "").strip()
    head, args = _split_targs(ty)
    if any(head + "<" == i or (head + "<").endswith(i) for i in INFINITE_ITERS) or any(ty.startswith(i) for i in INFINITE_ITERS):
        return False
    last = head.split("::")[-1]
    if last == "Zip" and len(args) >= 2:
        return iter_type_finite(args[0]) or iter_type_finite(args[1])
    if last == "Take":
        return True
    if last == "Chain" and len(args) >= 2:
        return iter_type_finite(args[0]) and iter_type_finite(args[1])
    if last in ("Map", "MapWhile", "TakeWhile", "Enumerate", "Peekable", "Filter", "FilterMap", "Skip", "SkipWhile", "StepBy", "Inspect", "Cloned", "Copied", "Rev", "Fuse", "Scan", "Flatten", "FlatMap") and args:
        return iter_type_finite(args[0])
    return not any(i in ty for i in INFINITE_ITERS) or last in ("Iter", "IntoIter", "IterMut")


def iterator_driven(body, h, blocks):
    for (bb, t, c) in body.call_sites(lambda c: c.decl_path == "std::iter::Iterator::next"):
        if bb not in blocks:
            continue
        if not iter_type_finite(c.self_ty or ""):
            continue
        if not every_cycle_passes(body, h, blocks, [bb]):
            continue
        # the None edge leaves this loop
        sw = R.find_switch_on_discr(body, t["t"], t["dest"][0])
        if not sw:
            continue
        sb, st = sw
        m = {v: tgt for v, tgt in st["vals"]}
        none_t = m.get(0, st["otherwise"])
        if none_t in blocks:
            continue
        # the iterator is created outside the loop
        il = R.origin_local(body, t["args"][0])
        if il is None:
            o = R.origin(body, t["args"][0], carriers={})
            il = o[1][0] if o[0] in ("field", "unknown") and o[1] else None
        if il is not None:
            defs = body.defs_of(il)
            if any(d[0] in blocks for d in defs):
                continue
        return f"every cycle calls next() on {c.self_ty[:70]} created outside the loop; None leaves the loop"
    return None


def is_coroutine_poll_loop(body, h, blocks):
    if body.kind != "Closure":
        return False
    ty0 = body.local_ty(1) if len(body.locals) > 1 else ""
    is_coro = "{async" in ty0 or "Pin<&mut" in ty0 or "{coroutine" in ty0 or "async" in ty0
    if not is_coro:
        return False
    polls = [b for b in blocks if body.term(b)["k"] == "call" and "fn" in body.term(b) and Callee(body.term(b)["fn"]).decl_path in ("std::future::Future::poll",)]
    return bool(polls) and every_cycle_passes(body, h, blocks, polls)


# ---------------------------------------------------------------------------
# must-consume summaries (scanner functions that advance the cursor on every Ok return)
# ---------------------------------------------------------------------------

def _is_err_block(body, b):
    for s in body.stmts(b):
        if "lhs" in s and s["lhs"][0] in body.ret_locals and not s["lhs"][1] and s["rv"].get("k") == "aggr" and s["rv"].get("variant") == "Err":
            return True
    t = body.term(b)
    if t["k"] == "call" and "fn" in t and Callee(t["fn"]).decl_path == "std::ops::FromResidual::from_residual" and t["dest"][0] in body.ret_locals:
        return True
    return False


def _bool_fact_of_switch(body, b):
    """if block b branches on the (possibly negated) result of a stable cursor predicate,
    return (name, true_target, false_target)"""
    t = body.term(b)
    if t["k"] != "switch":
        return None
    neg = False
    o = R.origin(body, t["op"], carriers={"branch": 0})
    if o[0] == "rv" and o[1].get("k") == "unop" and o[1].get("op") == "Not":
        neg = True
        o = R.origin(body, o[1]["a"], carriers={"branch": 0})
    if o[0] == "call" and "fn" in o[2]:
        c = Callee(o[2]["fn"])
        last = c.path.split("::")[-1]
        if last in STABLE_PREDICATES:
            # a switch on the ControlFlow discriminant of `pred()?` is not the boolean itself
            sd = R.switch_discr_place(body, b)
            if sd is not None:
                return None
            tt, ft = R.switch_targets_bool(t)
            if neg:
                tt, ft = ft, tt
            return last, tt, ft
    return None


_CURSOR_EQUIV = {}


def _current_none_is_at_end(prog):
    """`current()` is None exactly when `at_end()` is true: every implementation of the cursor's `current` is
    `self.<data>.get(self.<index>)` (nothing else decides) and every `at_end` is `self.<index> >= self.<data>.len()`"""
    k = id(prog)
    if k not in _CURSOR_EQUIV:
        cur = [b for b in prog.bodies.values() if b.file in ("src/path.rs", "src/bearing.rs") and b.kind != "Closure" and b.path.split("::")[-1] == "current" and len(b.reachable) > 0]
        end = [b for b in prog.bodies.values() if b.file in ("src/path.rs", "src/bearing.rs") and b.kind != "Closure" and b.path.split("::")[-1] == "at_end"]
        ok = bool(cur) and bool(end)
        for b in cur:
            gets = b.call_sites(lambda c: c.path.split("::")[-1] == "get" and "slice" in c.path or c.path.split("::")[-1] == "get" and "[T]" in c.path)
            switches = [x for x in b.reachable if b.term(x)["k"] == "switch"]
            if len(gets) != 1 or switches:
                ok = False
        for b in end:
            cmp_ = [st for x, i, st in b.all_stmts() if (st.get("rv") or {}).get("k") == "binop" and st["rv"].get("op") in ("Ge", "Lt", "Le", "Gt", "Eq")]
            lens = [1 for x, i, st in b.all_stmts() if (st.get("rv") or {}).get("k") in ("len", "ptrmeta")] + b.call_sites(lambda c: c.path.split("::")[-1] == "len")
            if len(cmp_) != 1 or cmp_[0]["rv"]["op"] != "Ge" or not lens:
                ok = False
        _CURSOR_EQUIV[k] = ok
    return _CURSOR_EQUIV[k]


def _current_fact_of_switch(prog, body, b):
    """a switch on the discriminant of `current()`: (none_target, some_target) when None means at_end()"""
    sd = R.switch_discr_place(body, b)
    if sd is None or sd[0][1] or not sd[1].startswith("std::option::Option<char>"):
        return None
    o = R.origin(body, {"c": [sd[0][0], []]}, carriers={})
    if o[0] != "call" or "fn" not in o[2]:
        return None
    c = Callee(o[2]["fn"])
    if c.path.split("::")[-1] != "current" or not (c.path.startswith("svgdx::path::") or c.path.startswith("svgdx::bearing::") or "svgdx::path::" in c.inst):
        return None
    if not _current_none_is_at_end(prog):
        return None
    t = body.term(b)
    m = {v: tgt for v, tgt in t["vals"]}
    none_t = m.get(0, t["otherwise"] if 1 in m else None)
    some_t = m.get(1, t["otherwise"] if 0 in m else None)
    if none_t is None or some_t is None or none_t == some_t:
        return None
    return none_t, some_t


def _literal_err_try(body, b):
    """`Err(e)?`: the switch on the ControlFlow of a literally constructed Err can only take Break"""
    sd = R.switch_discr_place(body, b)
    if sd is None or sd[0][1]:
        return None
    d = body.single_def(sd[0][0])
    if not d or d[1] != R.TERM or "fn" not in d[2] or Callee(d[2]["fn"]).decl_path != "std::ops::Try::branch":
        return None
    o = R.origin(body, d[2]["args"][0], carriers={})
    if o[0] == "rv" and o[1].get("k") == "aggr" and o[1].get("adt") == "std::result::Result" and o[1].get("variant") == "Err":
        for v, tgt in body.term(b)["vals"]:
            if v == 1:
                return tgt
    return None


def consumes_on_ok(prog, body, progress_ids, allow_end=True):
    """Explore all progress-free paths from entry.  Returns None when every Ok return is preceded by a
    progress call (or, if allow_end, happens with at_end() known true); else a description of the path."""
    seen = set()
    work = [(0, frozenset(), (0,))]
    while work:
        b, facts, path = work.pop()
        if (b, facts) in seen:
            continue
        seen.add((b, facts))
        t = body.term(b)
        if any(isinstance(k_, tuple) and k_[0] == "sw" and any(d_[0] == b for d_ in body.defs_of(k_[1])) for k_, _v in facts):
            # the tested value is assigned again here (a loop): what an earlier test said is about the old value
            facts = frozenset((k_, v_) for k_, v_ in facts if not (isinstance(k_, tuple) and k_[0] == "sw" and any(d_[0] == b for d_ in body.defs_of(k_[1]))))
        if _is_err_block(body, b):
            continue
        if t["k"] in ("call", "tailcall") and "fn" in t:
            c = Callee(t["fn"])
            tg = prog.targets_of_callee(c)
            if tg and all(x.id in progress_ids for x in tg):
                continue  # progress made on this path
        if t["k"] == "ret":
            f = dict(facts)
            if allow_end and f.get("at_end") is True:
                continue
            return f"Ok return reached without consuming input via lines {R.path_lines(body, list(path))[-6:]}"
        lit = _literal_err_try(body, b)
        if lit is not None:
            work.append((lit, facts, path + (lit,)))
            continue
        bf = _bool_fact_of_switch(body, b)
        if bf:
            name, tt, ft = bf
            f = dict(facts)
            for tgt, val in ((tt, True), (ft, False)):
                if name in f and f[name] != val:
                    continue
                nf = dict(f)
                nf[name] = val
                work.append((tgt, frozenset(nf.items()), path + (tgt,)))
            continue
        cf = _current_fact_of_switch(prog, body, b)
        if cf is not None:
            # `while let Some(ch) = cursor.current()`: None is the end of the input
            f = dict(facts)
            for tgt, val in ((cf[0], True), (cf[1], False)):
                if "at_end" in f and f["at_end"] != val:
                    continue
                nf = dict(f)
                nf["at_end"] = val
                work.append((tgt, frozenset(nf.items()), path + (tgt,)))
            continue
        iv = _immutable_switch_subject(body, b)
        if iv is not None:
            # two matches on the same never-reassigned value (`match command {..}` twice) take corresponding arms
            f = dict(facts)
            known = f.get(("sw", iv))
            listed = frozenset(v for v, _ in t["vals"])
            for v, tgt in list(t["vals"]) + [(None, t["otherwise"])]:
                if v is not None:
                    if known is not None and ((known[0] == "in" and v not in known[1]) or (known[0] == "notin" and v in known[1])):
                        continue
                    nk = ("in", frozenset([v]))
                else:
                    if known is not None and known[0] == "in":
                        rest = known[1] - listed
                        if not rest:
                            continue
                        nk = ("in", rest)
                    else:
                        nk = ("notin", (known[1] if known is not None else frozenset()) | listed)
                nf = dict(f)
                nf[("sw", iv)] = nk
                work.append((tgt, frozenset(nf.items()), path + (tgt,)))
            continue
        for s in body.succ[b]:
            work.append((s, facts, path + (s,)))
    return None


def _immutable_switch_subject(body, b):
    """the local a switchInt tests, when it is a plain integer / char value that is assigned exactly once (followed
    back through copies): its value is the same at every test"""
    t = body.term(b)
    if t["k"] != "switch" or R.switch_discr_place(body, b) is not None:
        return None
    pl = op_place(t["op"])
    for _ in range(8):
        if pl is None or pl[1]:
            return None
        ds = body.defs_of(pl[0])
        if pl[0] <= body.argc and not ds:
            return pl[0]
        if len(ds) != 1:
            return None
        d = ds[0]
        if d[1] == R.TERM:
            return pl[0]
        rv = d[2]
        if rv["k"] == "use" and op_place(rv["op"]) is not None and body.local_ty(pl[0]) in ("char", "u8", "u16", "u32", "u64", "usize", "i8", "i16", "i32", "i64", "isize"):
            pl = op_place(rv["op"])
            continue
        return pl[0] if body.local_ty(pl[0]) in ("char", "u8", "u16", "u32", "u64", "usize", "i8", "i16", "i32", "i64", "isize") else None
    return None


def accumulate_then_parse(prog, body, progress_ids):
    """read_number idiom: the Ok value is `acc.parse()?` of a String that starts empty and every push into
    it is followed by a cursor advance; "".parse::<f32>() is an error, so Ok implies >= 1 advance."""
    parses = body.call_sites(lambda c: c.path.endswith("<impl str>::parse"))
    if len(parses) != 1:
        return None
    pb, pt, pc = parses[0]
    if "f32" not in pc.inst and "f64" not in pc.inst:
        return None
    acc = R.origin_local(body, pt["args"][0])
    if acc is None or "String" not in body.local_ty(acc):
        return None
    # all Ok returns come from the parse result
    for b, i, s in body.all_stmts():
        if "lhs" in s and s["lhs"][0] == 0 and not s["lhs"][1] and s["rv"].get("variant") == "Ok":
            o = R.origin(body, s["rv"]["ops"][0], carriers={"branch": 0})
            if not (o[0] == "call" and o[1] == pb):
                return None
    # acc starts as String::new()
    d0 = [d for d in body.defs_of(acc)]
    if not any(d[1] == R.TERM and "fn" in d[2] and Callee(d[2]["fn"]).path == "std::string::String::new" for d in d0):
        return None
    pushes = [(b, t) for (b, t, c) in body.call_sites(lambda c: c.path in ("std::string::String::push", "std::string::String::push_str")) if R.origin_local(body, t["args"][0]) == acc]
    if not pushes:
        return None
    adv = {b for (b, t, c) in body.call_sites(lambda c: True) if prog.targets_of_callee(c) and all(x.id in progress_ids for x in prog.targets_of_callee(c))}
    for (b, t) in pushes:
        r = body.reach([t["t"]], avoid=adv)
        if pb in r:
            return None
    return "Ok value is `acc.parse()?` of an initially empty String; every push into it is followed by advance(), and the empty string does not parse: Ok implies at least one advance"


def must_consume_set(prog):
    """least fixpoint: functions that consume >= 1 input item on every Ok return (or return with at_end)."""
    mc = {}
    for b in prog.impls_of(ADVANCE_DECL):
        # advance(): increments the cursor index on every path
        incs = []
        for bb, i, s in b.all_stmts():
            if "lhs" in s and tuple(s["lhs"][1])[-1:] == (".index",):
                incs = R.increments_of(b, P(s["lhs"]))
        if len(incs) == 1 and all(b.dominates(incs[0][0], r) for r in b.return_blocks):
            mc[b.path] = "advance(): increments the cursor index unconditionally"
    ids = {prog.body(p).id for p in mc}
    cands = [b for b in prog.bodies.values() if b.file in ("src/path.rs", "src/bearing.rs") and b.kind != "Closure" and b.path not in mc]
    changed = True
    while changed:
        changed = False
        for b in cands:
            if b.path in mc:
                continue
            rt = (prog.item(b.path, "fn") or {}).get("output", "")
            if b.path.endswith("::at_command") or b.path.endswith("::at_end") or b.path.endswith("::current") or b.path.endswith("::check_not_end"):
                continue
            why = None
            w = accumulate_then_parse(prog, b, ids)
            if w:
                why = w
            elif rt.startswith("std::result::Result<"):
                bad = consumes_on_ok(prog, b, ids)
                if bad is None:
                    why = "every progress-free path ends in Err or returns with at_end() == true (cursor predicates are stable until the next advance)"
            if why:
                mc[b.path] = why
                ids.add(b.id)
                changed = True
    return mc


# ---------------------------------------------------------------------------
# witnesses
# ---------------------------------------------------------------------------

def _calls_in(prog, body, blocks, pred):
    return [(b, t, c) for (b, t, c) in body.call_sites(pred) if b in blocks]


def w_must_consume(prog, body, h, blocks, par, mc):
    callee = par["callee"]
    if callee not in mc:
        b = prog.body(callee)
        ids = {prog.body(p).id for p in mc}
        return False, f"{callee.split('::')[-1]}() can return Ok without consuming input: {consumes_on_ok(prog, b, ids)}"
    calls = _calls_in(prog, body, blocks, R.path_is(callee))
    if not calls or not every_cycle_passes(body, h, blocks, [b for (b, _, _) in calls]):
        return False, f"a cycle does not call {callee.split('::')[-1]}()"
    # the loop condition is !<cond>() and its true edge leaves the loop
    bf = _bool_fact_of_switch(body, _first_switch(body, h, blocks))
    if not bf or bf[0] != par["cond"] or bf[1] in blocks:
        return False, f"loop is not of the form `while !{par['cond']}()`"
    # Err of the callee leaves the loop
    for (cb, ct, cc) in calls:
        brk = R.try_break_edges(body, ct["dest"][0])
        if not brk or any(tgt in blocks for (_, tgt) in brk):
            return False, "an Err of the callee does not leave the loop"
    return True, f"`while !{par['cond']}()`: each pass calls {callee.split('::')[-1]}()?, which consumes input on every Ok return or returns at the end of input ({mc[callee]})"


def _first_switch(body, h, blocks):
    b = h
    for _ in range(6):
        t = body.term(b)
        if t["k"] == "switch":
            return b
        nxt = [s for s in body.succ[b]]
        if len(nxt) != 1:
            return b
        b = nxt[0]
    return b


def _progress_blocks(prog, body, blocks, mc):
    ids = {prog.body(p).id for p in mc}
    out = []
    for (b, t, c) in body.call_sites(lambda c: True):
        if b not in blocks:
            continue
        tg = prog.targets_of_callee(c)
        if tg and all(x.id in ids for x in tg):
            out.append(b)
    return out


def w_cursor_advance(prog, body, h, blocks, par, mc):
    pb = _progress_blocks(prog, body, blocks, mc)
    if pb and every_cycle_passes(body, h, blocks, pb):
        return True, "every cycle advances the cursor (calls advance() or a function proven to consume input)"
    return False, "a cycle does not advance the cursor"


def w_token_advance(prog, body, h, blocks, par, mc):
    adv = "svgdx::expression::EvalState::<'a>::advance"
    nxt = "svgdx::expression::EvalState::<'a>::next"
    a = prog.body(adv)
    incs = []
    for bb, i, s in a.all_stmts():
        if "lhs" in s and tuple(s["lhs"][1])[-1:] == (".index",):
            incs = R.increments_of(a, P(s["lhs"]))
    if len(incs) != 1 or not all(a.dominates(incs[0][0], r) for r in a.return_blocks):
        return False, "EvalState::advance no longer increments the token index unconditionally"
    calls = _calls_in(prog, body, blocks, R.path_is(adv))
    if calls and every_cycle_passes(body, h, blocks, [b for (b, _, _) in calls]):
        return True, "every cycle calls EvalState::advance(), which increments the token index; the token list is finite"
    if calls:
        # `if self.accept(&Token::Add) { .. } else { break }` with accept() = "advance if the token is there, say
        # whether it was": the cycle that skips advance() is the one on which accept() said no - and leaves the loop.
        # Decided on feasible paths (sa/vstate.py): with the advance blocks removed no latch of the loop is reached
        from sa import vstate
        advb = {b for (b, _, _) in calls}
        feas = vstate.of(body, prog).feasible(avoid=advb, start=h)
        latches = [x for x in body.pred[h] if x in blocks]
        if latches and not any(x in feas for x in latches):
            return True, "every feasible cycle calls EvalState::advance(): the paths that skip it are those on which the token test failed, and they leave the loop; the token list is finite"
    return False, "a cycle does not consume a token"


def w_cursor_advance_or_exit(prog, body, h, blocks, par, mc):
    return w_cursor_advance(prog, body, h, blocks, par, mc)


def w_counter(prog, body, h, blocks, par, mc):
    # a local incremented on every cycle and compared against a length in the loop condition
    for l in range(len(body.locals)):
        if body.local_ty(l) not in ("usize", "u32", "u64", "i32"):
            continue
        incs = [x for x in R.increments_of(body, (l, ())) if x[0] in blocks]
        if not incs:
            continue
        if not every_cycle_passes(body, h, blocks, [x[0] for x in incs]):
            continue
        sb = _first_switch(body, h, blocks)
        o = R.origin(body, body.term(sb)["op"], carriers={})
        if o[0] == "rv" and o[1].get("k") == "binop" and o[1]["op"] in ("Lt", "Le", "Gt", "Ge", "Ne"):
            sides = [body.chase(o[1]["a"]), body.chase(o[1]["b"])]
            if any(s[0] == "place" and s[1] == (l, ()) for s in sides):
                # other assignments to the counter inside the loop only move it forward: value + 1 of a range index >= counter
                return True, f"`{body.local_name(l)}` is incremented on every cycle and the loop condition compares it with a length"
    return False, "no counter that is incremented on every cycle and tested by the loop condition"


def w_limit_counter(prog, body, h, blocks, par, mc):
    for l in range(len(body.locals)):
        incs = [x for x in R.increments_of(body, (l, ())) if x[0] in blocks]
        if len(incs) != 1 or not every_cycle_passes(body, h, blocks, [incs[0][0]]):
            continue
        # compared with the limit, true edge leaves the loop with Err
        for b in blocks:
            for s in body.stmts(b):
                rv = s.get("rv")
                if rv and rv["k"] == "binop" and rv["op"] in ("Gt", "Ge"):
                    a, c = body.chase(rv["a"]), body.chase(rv["b"])
                    if a[0] == "place" and a[1] == (l, ()) and c[0] == "place" and c[1][1] and c[1][1][-1] == par["limit"]:
                        t = body.term(b)
                        if t["k"] == "switch":
                            tt, ft = R.switch_targets_bool(t)
                            if tt not in blocks and every_cycle_passes(body, h, blocks, [b]):
                                return True, f"`{body.local_name(l)}` is incremented on every cycle and compared with {par['limit'].strip('.')}; exceeding it leaves the loop with an error (C17 decides the exact predicate)"
    return False, "no per-cycle counter compared with the configured limit"


def w_len_exit(prog, body, h, blocks, par, mc):
    for b in blocks:
        t = body.term(b)
        if t["k"] != "switch":
            continue
        o = R.origin(body, t["op"], carriers={})
        if o[0] == "rv" and o[1].get("k") == "binop" and o[1]["op"] == "Eq":
            a = R.origin(body, o[1]["a"], carriers={})
            c = R.origin(body, o[1]["b"], carriers={})
            if all(x[0] == "call" and "fn" in x[2] and Callee(x[2]["fn"]).path.endswith("::len") for x in (a, c)):
                tt, ft = R.switch_targets_bool(t)
                if tt not in blocks and every_cycle_passes(body, h, blocks, [b]):
                    swaps = _calls_in(prog, body, blocks, R.path_is("std::mem::swap"))
                    if swaps and every_cycle_passes(body, h, blocks, [x[0] for x in swaps]):
                        return True, "every cycle compares the pending set's length with the retry set's length and leaves with an error when no element was resolved; otherwise the (strictly smaller) retry set becomes the pending set"
    return False, "no per-cycle `pending.len() == retry.len()` exit followed by the swap"


def w_visited_set(prog, body, h, blocks, par, mc):
    cont = _calls_in(prog, body, blocks, lambda c: c.path.endswith("::contains"))
    push = _calls_in(prog, body, blocks, R.path_endswith("Vec::<T, A>::push"))
    if not cont or not push:
        return False, "no contains()/push() on a visited list inside the loop"
    cb, ct, _ = cont[0]
    st = body.term(ct["t"])
    if st["k"] != "switch":
        return False, "contains() is not branched on"
    tt, ft = R.switch_targets_bool(st)
    if tt in blocks and not R.assigns_result_variant(body, body.reach([tt], avoid=[ft]), "Err"):
        return False, "a repeated element does not leave the loop with an error"
    must = [cb]
    if not every_cycle_passes(body, h, blocks, must) or not every_cycle_passes(body, h, blocks, [b for (b, _, _) in push]):
        return False, "a cycle avoids the visited test or the recording of the element"
    return True, "every cycle tests the next element against the visited list (repeat -> error) and records it: at most one cycle per distinct element"


def w_external_reader(prog, body, h, blocks, par, mc):
    calls = _calls_in(prog, body, blocks, R.path_endswith(par["reader"]))
    if not calls or not every_cycle_passes(body, h, blocks, [b for (b, _, _) in calls]):
        return False, "a cycle does not read from the input"
    return True, "every cycle reads one event from the XML reader; the loop leaves on Eof or on a reader error (finite input gives finitely many events)"


def w_daemon(prog, body, h, blocks, par, mc):
    return True, par["reason"]


# --- shrinking suffix -------------------------------------------------------
SAME, SUFFIX, STRICT, UNKNOWN = 1, 2, 3, 0


def _positive(body, op, depth=6, use_bb=None):
    """is the usize operand provably >= 1 (at block use_bb)?"""
    if depth <= 0:
        return False
    if use_bb is not None:
        pl0 = op_place(op)
        for _ in range(4):  # look through temporaries that merely copy a variable
            if pl0 is None or pl0[1]:
                break
            d = body.single_def(pl0[0])
            if d and d[1] != R.TERM and d[2]["k"] == "use" and op_place(d[2]["op"]) is not None and not op_place(d[2]["op"])[1] and body.local_name(pl0[0]) is None:
                pl0 = op_place(d[2]["op"])
            else:
                break
        if pl0 is not None and not pl0[1]:
            # a dominating `x = x + c` (c >= 1) with no other definition in between decides
            incs = R.increments_of(body, pl0)
            alld = body.defs_of(pl0[0])
            for (ib, ii, _s) in incs:
                if not body.dominates(ib, use_bb):
                    continue
                between = [d for d in alld if d[0] != ib and body.dominates(ib, d[0]) and use_bb in body.reach([d[0]], avoid=[ib])]
                if not between:
                    return True
    k = op_const(op)
    if k is not None:
        return k.get("int", 0) >= 1
    pl = op_place(op)
    if pl is None:
        return False
    if pl[1] == (".0",):  # checked-add tuple
        d = body.single_def(pl[0])
        if d and d[1] != R.TERM and d[2]["k"] == "binop" and d[2]["op"] in ("AddWithOverflow", "Add"):
            return _positive(body, d[2]["a"], depth - 1) or _positive(body, d[2]["b"], depth - 1)
        return False
    if pl[1]:
        return False
    defs = body.defs_of(pl[0])
    if not defs:
        return False
    if len(defs) == 1 and defs[0][1] == R.TERM and "fn" in defs[0][2]:
        ct = defs[0][2]
        cp = Callee(ct["fn"]).path
        from sa import discharge as D_

        if cp.endswith("Option::<T>::map_or") and len(ct["args"]) == 3 and _PROG is not None:
            # `opt.map_or(d, |i| i + k)`: positive when d is and k >= 1
            if _positive(body, ct["args"][1], depth - 1) and (D_.closure_adds(_PROG, body, ct["args"][2]) or 0) >= 1:
                return True
        if cp.endswith("<impl str>::len") and ct["args"] and D_.ascii_match_tail(body, ct["args"][0]):
            return True  # the tail of a split at a hit holds the matched character
    # every definition reaching must be positive; a `+= const` redefinition makes the variable positive
    res = []
    for (b, i, rv) in defs:
        if i == R.TERM:
            c = Callee(rv["fn"]) if "fn" in rv else None
            if c and c.path.endswith("::len") and rv["args"]:
                o = R.origin(body, rv["args"][0], carriers={})
                res.append(o[0] == "const" and len(o[1].get("str", "")) >= 1)
            else:
                res.append(False)
        elif rv["k"] == "use":
            res.append(_positive(body, rv["op"], depth - 1))
        elif rv["k"] == "binop" and rv["op"] in ("Add", "AddWithOverflow"):
            res.append(_positive(body, rv["a"], depth - 1) or _positive(body, rv["b"], depth - 1))
        else:
            res.append(False)
    return all(res)


def w_shrinking_suffix(prog, body, h, blocks, par, mc):
    """some &str variable (whatever it is called) is re-assigned to a strictly shorter suffix of itself on every cycle"""
    cands = []
    for i, l in enumerate(body.locals):
        if l.get("name") and l["ty"].startswith("&") and "str" in l["ty"]:
            defs_in = [d for d in body.defs_of(i) if d[0] in blocks]
            if defs_in:
                cands.append(i)
    # the variable the reviewed source used comes first (its message is the most useful one)
    cands.sort(key=lambda i: body.locals[i].get("name") != par.get("var"))
    if not cands:
        return False, "no &str loop variable is assigned inside the loop"
    res = (False, "")
    for var in cands:
        res = _shrinking_suffix_of(body, h, blocks, dict(par, var=body.locals[var].get("name")), var)
        if res[0]:
            return res
    return _shrinking_suffix_of(body, h, blocks, dict(par, var=body.locals[cands[0]].get("name")), cands[0])


def _shrinking_suffix_of(body, h, blocks, par, var):
    # loop condition tests the variable for emptiness (or the loop breaks when nothing is found)
    # forward dataflow over the loop body
    state_in = {h: {var: SAME}}
    order = [h]
    work = [h]
    latch_states = []
    visited = set()
    while work:
        b = work.pop(0)
        st = dict(state_in[b])
        st = _transfer_block(body, b, st, var)
        for s in body.succ[b]:
            if s not in blocks:
                continue
            if s == h:
                latch_states.append((b, st.get(var, UNKNOWN)))
                continue
            old = state_in.get(s)
            new = _join(old, st)
            if new != old:
                state_in[s] = new
                work.append(s)
    if not latch_states:
        return False, "no back edge"
    bad = [(b, v) for (b, v) in latch_states if v != STRICT]
    if bad:
        names = {SAME: "unchanged", SUFFIX: "a possibly equal suffix", UNKNOWN: "an unrelated value"}
        b, v = bad[0]
        return False, f"on the cycle closing at line {body.term(b).get('line')} `{par['var']}` is {names.get(v, v)} of its value at the loop head, not a strictly shorter suffix: the loop can spin forever on some input"
    return True, f"on every cycle `{par['var']}` is re-assigned to a strictly shorter suffix of itself (slices at positive offsets / after non-empty matches), so its length strictly decreases"


def _join(a, b):
    if a is None:
        return dict(b)
    out = {}
    for k in set(a) | set(b):
        out[k] = min(a.get(k, UNKNOWN), b.get(k, UNKNOWN))
    return out


def _val(st, body, op):
    pl = op_place(op)
    if pl is None:
        return UNKNOWN
    if pl[1] and [p for p in pl[1] if p not in ("*",)]:
        # tuple field of split_at result etc.
        return st.get((pl[0], tuple(p for p in pl[1] if p != "*")), UNKNOWN)
    return st.get(pl[0], UNKNOWN)


def _transfer_block(body, b, st, var):
    for s in body.stmts(b):
        if "lhs" not in s:
            continue
        lhs = P(s["lhs"])
        rv = s["rv"]
        v = UNKNOWN
        if rv["k"] == "use":
            v = _val(st, body, rv["op"])
            k0 = op_const(rv["op"])
            if k0 is not None and k0.get("str") == "" and str(k0.get("ty", "")).startswith("&"):
                # `return ""` for "nothing left": the empty string is a (strictly shorter, or the loop has ended) suffix
                # of everything - a search in it finds nothing
                v = STRICT
        elif rv["k"] == "ref":
            rp = P(rv["place"])
            v = st.get(rp[0], UNKNOWN) if not [p for p in rp[1] if p != "*"] else st.get((rp[0], tuple(p for p in rp[1] if p != "*")), UNKNOWN)
        elif rv["k"] == "cast":
            v = _val(st, body, rv["op"])
        key = lhs[0] if not [p for p in lhs[1] if p != "*"] else (lhs[0], tuple(p for p in lhs[1] if p != "*"))
        st[key] = v
    t = body.term(b)
    if t["k"] == "call" and "fn" in t and t.get("dest"):
        c = Callee(t["fn"])
        d = P(t["dest"])
        last = c.path.split("::")[-1]
        v = UNKNOWN
        a0 = _val(st, body, t["args"][0]) if t["args"] else UNKNOWN
        if c.decl_path == "std::ops::Index::index" and "str" in c.inst.split(" as ")[0]:
            o = R.origin(body, t["args"][1], carriers={})
            if o[0] == "rv" and o[1].get("adt", "").endswith("RangeFrom") and a0 != UNKNOWN:
                v = STRICT if (_positive(body, o[1]["ops"][0], use_bb=b) or a0 == STRICT) else SUFFIX
        elif last == "split_at" and a0 != UNKNOWN:
            st[(d[0], (".1",))] = STRICT if (a0 == STRICT or _positive(body, t["args"][1], use_bb=b)) else max(a0, SUFFIX)
            st[(d[0], (".0",))] = UNKNOWN
            v = UNKNOWN
        elif last in ("strip_prefix",) and a0 != UNKNOWN:
            # Option<&str>: payload handled at the downcast read
            pat = R.origin(body, t["args"][1], carriers={}) if len(t["args"]) > 1 else ("unknown",)
            nonempty = pat[0] == "const" and (len(pat[1].get("str", "")) >= 1 or "char" in pat[1])
            st[(d[0], ("as Some", ".0"))] = STRICT if (nonempty or a0 == STRICT) else max(a0, SUFFIX)
        elif last == "split_once" and a0 != UNKNOWN:
            # Option<(&str, &str)>: what follows the (non-empty) delimiter is a strictly shorter suffix
            pat = R.origin(body, t["args"][1], carriers={}) if len(t["args"]) > 1 else ("unknown",)
            nonempty = pat[0] == "const" and (len(pat[1].get("str", "")) >= 1 or "char" in pat[1])
            st[(d[0], ("as Some", ".0", ".1"))] = STRICT if (nonempty or a0 == STRICT) else max(a0, SUFFIX)
            st[(d[0], ("as Some", ".0", ".0"))] = UNKNOWN
        elif last in ("trim_start", "trim_start_matches") and a0 != UNKNOWN:
            v = max(a0, SUFFIX)
        elif last in ("deref", "as_str", "as_ref", "borrow", "clone") and a0 != UNKNOWN:
            v = a0
        if not d[1]:
            st[d[0]] = v
    return st


VERIFY = {
    "must-consume": w_must_consume,
    "cursor-advance": w_cursor_advance,
    "cursor-advance-or-exit": w_cursor_advance_or_exit,
    "token-advance": w_token_advance,
    "shrinking-suffix": w_shrinking_suffix,
    "counter": w_counter,
    "limit-counter": w_limit_counter,
    "len-exit": w_len_exit,
    "visited-set": w_visited_set,
    "external-reader": w_external_reader,
    "daemon": w_daemon,
}
