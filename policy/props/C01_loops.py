def run(prog, chk, reach):
    pass
