"""C18 Reuse instantiates templates as if written out by hand (mechanisms)."""
from sa import rules as R
from sa.prog import P, Callee, op_place, op_const, const_str, const_bool
from props import C15

EXPLANATION = (
    "MIR analyses of the mechanisms without which reuse cannot equal the hand-inlined document: (1) the template is "
    "taken from get_original_element (the unevaluated snapshot); original_map is written once per id (first-seen edge of "
    "elem_map.insert) and every element-bearing tag is registered raw in process_tags before it is evaluated; the "
    "evaluated template state reaches the instance only through content_bbox; (2) reuse bindings are a scope "
    "(push/pop pairing on every exit, shared with C15); (3) identity transfer: target id popped and re-added as class, "
    "reuse id/style/classes copied onto the instance; (4) <specs>: output and bbox contribution are control-dependent "
    "on !in_specs, SpecsElement returns an empty list, and in_specs=true/false is paired on every exit. "
    "Undecided: equality with the hand-inlined document and placement arithmetic (two executions / numeric)."
    " Also: existing transform precedes the placing translate() on both placement paths; use/reuse size = target size, width first (A17)."
)
TRUSTED = ["HashMap::insert returns None exactly for a new key"]
ASSUMPTIONS = []

REUSE = "<svgdx::reuse::ReuseElement as svgdx::transform::EventGen>::generate_events"
SPECS = "<svgdx::transform::SpecsElement as svgdx::transform::EventGen>::generate_events"
CTX = "svgdx::context::TransformerContext"
EL = "svgdx::element::SvgElement"


def run(prog, chk):
    chk.rule(template_source, prog, chk)
    chk.rule(C15.scope_pairing, prog, chk, "A5.reuse-scope")
    chk.rule(identity_transfer, prog, chk)
    chk.rule(specs, prog, chk)
    chk.rule(transform_order, prog, chk)
    chk.rule(C15.scope_vars_complete, prog, chk)  # every attribute of the <reuse> (also an empty one) becomes a variable of the target
    chk.rule(via_transform_guard, prog, chk)
    from props import geomalg
    chk.rule(geomalg.check_sites, prog, chk, "C18")
    chk.rule(geomalg.check, prog, chk, "C18", floor=4)
    from props import C10
    import props.C15 as _C15
    chk.rule(_C15.reuse_scope_encloses_instance, prog, chk)
    chk.rule(_C15.reuse_reads_evaluated_element, prog, chk)
    from props import C17 as _C17
    chk.rule(_C17.depth_pairing, prog, chk)  # a failed attempt (template not registered yet) must not leak a depth level: later reuses would hit the limit
    chk.rule(C10.retry_progress, prog, chk)  # a template in a <specs> block written after its <reuse> is found on the retry: every success counts as progress
    chk.rule(_C15.stack_writers, prog, chk)
    chk.rule(_C15.innermost_writes, prog, chk)  # what a template's <var> assigns stays in the instance's scope (it does not reach out into an enclosing definition)
    from props import C17 as _C17b
    chk.rule(_C17b.scope_var_limit, prog, chk)  # a reuse attribute of exactly var-limit characters is accepted as the hand-written element would be
    chk.rule(_C17b.limit_predicates, prog, chk)
    chk.rule(C10.error_swallow, prog, chk)  # `${font-size}` in a template is the reuse attribute of that name: a reference is never left as written because a predicate said no; the registered state of a <specs> shape is the evaluated one
    chk.rule(C10.registration_keys_agree, prog, chk)  # ids inside a template are evaluated with the reuse variables: withdrawn under the key they were registered under


def _reuse_body(prog):
    """the body the instance is built in: ReuseElement::generate_events, or the closure of it the work was moved into
    (`context.with_scope(el, |ctx| { .. })`) - whichever fetches the template"""
    ru = prog.body(REUSE)
    if R.calls_to(ru, R.path_is(CTX + "::get_original_element")):
        return ru
    for cl in prog.closures_of(ru):
        if R.calls_to(cl, R.path_is(CTX + "::get_original_element")):
            return cl
    return ru


def template_source(prog, chk):
    ru = _reuse_body(prog)
    chk.touch(ru)
    goe = R.calls_to(ru, R.path_is(CTX + "::get_original_element"))
    chk.floor("A10.template-source", len(goe), 1, "get_original_element call in ReuseElement")
    inst = _instance_local(ru)
    chk.ob(
        inst is not None,
        "A10.template-source",
        "ReuseElement:instance",
        ru.where(),
        "the instance element is a clone of get_original_element(href) - the unevaluated template",
        "cannot find an instance element initialised from get_original_element()",
    )
    # evaluated template (elem_map via get_element) may only contribute content_bbox
    ge = R.calls_to(ru, lambda c: c.decl_path == "svgdx::context::ElementMap::get_element")
    for k, (b, t, c) in enumerate(ge):
        where = ru.where(b, t.get("line"))
        uses = _payload_uses(ru, t["dest"][0], prog.bodies)
        bad = [u for u in uses if u != ".content_bbox"]
        chk.ob(
            not bad,
            "A10.evaluated-template",
            f"ReuseElement:get_element#{k}",
            where,
            "the evaluated template (get_element) is consulted only for its content_bbox",
            f"the evaluated state of the template leaks into the instance through {sorted(set(bad))} (instances must depend on the reuse bindings, not on how the template happened to render)",
        )
    # original_map: written only in update_element, on the first-seen edge
    w = R.field_writers(prog, "original_map", CTX)
    w = {k: v for k, v in w.items() if not k.endswith("::default")}
    ue_path = CTX + "::update_element"
    if not w:
        # no field of that name any more (the maps moved into a struct of their own): who writes the snapshot map is not
        # decided by name
        chk.undecided("A10.original-map", "writers", "src/context.rs", "no field `original_map` in TransformerContext: the snapshot map cannot be identified by name")
    else:
      chk.ob(set(w) == {ue_path}, "A10.original-map", "writers", "src/context.rs", "original_map is written only by update_element", f"original_map writers: {sorted(w)}")
    ue = prog.body(ue_path)
    chk.touch(ue)
    ins = R.calls_to(ue, lambda c: c.path.startswith("std::collections::HashMap") and c.path.endswith("::insert"))
    by_field = {}
    for (b, t, c) in ins:
        o = R.origin(ue, t["args"][0])
        if o[0] == "field":
            by_field[o[1][1][-1]] = (b, t)
    ok = False
    detail = f"inserts found on {sorted(by_field)}"
    if ".elem_map" in by_field and ".original_map" in by_field:
        eb, et = by_field[".elem_map"]
        ob, ot = by_field[".original_map"]
        # is_none(&insert result) -> switch; original insert only on the true edge
        isn = [x for x in R.calls_to(ue, R.path_endswith("::is_none")) if R.origin(ue, x[1]["args"][0])[0] == "call" and R.origin(ue, x[1]["args"][0])[1] == eb]
        if isn:
            nb, nt, _ = isn[0]
            # the branch on that answer - directly, or after it was given a name (`let first_seen = ..is_none();`)
            sb, st = nt["t"], ue.term(nt["t"])
            if not (st["k"] == "switch" and op_place(st["op"]) == (nt["dest"][0], ())):
                for b2 in sorted(ue.reachable):
                    t2 = ue.term(b2)
                    if t2["k"] == "switch" and ue.dominates(nb, b2) and R.origin(ue, t2["op"], carriers={})[:2] == ("call", nb):
                        sb, st = b2, t2
                        break
            if st["k"] == "switch" and (op_place(st["op"]) == (nt["dest"][0], ()) or R.origin(ue, st["op"], carriers={})[:2] == ("call", nb)):
                true_t, false_t = R.switch_targets_bool(st)
                ok = R.control_dependent_only_via(ue, ob, (sb, true_t)) and true_t != false_t
                detail = "original_map.insert is reachable only through the is_none() == true edge of elem_map.insert"
    if not (".elem_map" in by_field and ".original_map" in by_field):
        chk.undecided("A13.original-first-seen", "update_element", ue.where(), f"the two inserts of update_element are not made on fields named elem_map / original_map ({detail}): which is the snapshot is not decided by name")
    else:
      chk.ob(ok, "A13.original-first-seen", "update_element", ue.where(), "the original (template) snapshot is stored only the first time an id is seen", "original_map.insert is not guarded by the first-seen test of elem_map.insert: " + detail)
    goe_b = prog.body(CTX + "::get_original_element")
    rd = R.field_readers(prog, "original_map", CTX)
    if not rd:
        chk.undecided("A10.original-map", "get_original_element", goe_b.where(), "no field `original_map` to look for in get_original_element")
    else:
      chk.ob(
        goe_b.path in rd and "svgdx::context::TransformerContext::get_original_element" in rd and not R.place_reads(goe_b, (".elem_map",)),
        "A10.original-map",
        "get_original_element",
        goe_b.where(),
        "get_original_element reads original_map (never elem_map)",
        "get_original_element does not read original_map only",
    )
    # raw registration precedes evaluation in process_tags
    pt = prog.body("svgdx::transform::process_tags")
    chk.touch(pt)
    gets = R.calls_to(pt, R.path_is("svgdx::events::Tag::get_element"))
    ups = R.calls_to(pt, R.path_is(ue_path))
    gens = R.calls_to(pt, lambda c: (c.decl_path == "svgdx::transform::EventGen::generate_events" or c.path.endswith(" as svgdx::transform::EventGen>::generate_events")))
    chk.floor("A13.raw-registration", min(len(gets), len(ups), len(gens)), 1, "get_element/update_element/generate_events in process_tags")
    if gets and ups and gens:
        gb, gt, _ = gets[0]
        # the first test of "is this tag an element" after get_element (directly, through `&el`, or on a moved copy)
        sws = [(sb, st) for (sb, st) in R.discr_switches_of(pt, gt["dest"][0]) if pt.dominates(gb, sb)]
        # ... or the `?` of a helper that returns an Option (`let el = tag.get_element()?;`)
        for (tb_, tt_, tc_) in pt.call_sites(lambda c: c.decl_path == "std::ops::Try::branch"):
            a_ = R.origin_local(pt, tt_["args"][0]) if tt_.get("args") else None
            if a_ == gt["dest"][0] and tt_.get("dest") and not tt_["dest"][1]:
                sw_ = R.find_switch_on_discr(pt, tt_["t"], tt_["dest"][0])
                if sw_:
                    sws.append((sw_[0], sw_[1]))
        sws = [x for x in sws if not any(y is not x and pt.dominates(y[0], x[0]) for y in sws)]
        if not sws:
            chk.undecided("A13.raw-registration", "process_tags", pt.where(ups[0][0], ups[0][1].get("line")), "where process_tags tests whether a tag holds an element (the result of get_element) is not read here")
            return
        ok = False
        for (sb, st) in sws:
            sd_ = R.switch_discr_place(pt, sb)
            # `tag.get_element()?` in a helper that returns an Option: the test is on the ControlFlow of `?`, where
            # Continue (0) is the element and Break (1) its absence
            some_v = 0 if (sd_ is not None and str(sd_[1]).startswith(("std::ops::ControlFlow", "core::ops::ControlFlow"))) else 1
            some_t = [tgt for v, tgt in st["vals"] if v == some_v] or ([st["otherwise"]] if st.get("otherwise") is not None and all(v != some_v for v, _t in st["vals"]) and len(st["vals"]) == 1 else [])
            if some_t:
                r = pt.reach(some_t, avoid={b for (b, _, _) in ups})
                ok = not any(b in r for (b, _, _) in gens)
        chk.ob(
            ok,
            "A13.raw-registration",
            "process_tags",
            pt.where(ups[0][0], ups[0][1].get("line")),
            "every element-bearing tag is registered (update_element) before it is evaluated, on every path - so original_map holds the raw template whatever renders first",
            "an element can be evaluated by generate_events without having been registered raw first (update_element is conditional): a rendered template's *evaluated* state would become the reuse snapshot",
        )


def _payload_uses(body, opt_local, body_prog_bodies=None):
    """field projections read from the Some payload of an Option<&SvgElement> local (through copies)"""
    body_prog_bodies = body_prog_bodies or {}
    uses = []
    work = [opt_local]
    seen = set()
    while work:
        l = work.pop()
        if l in seen:
            continue
        seen.add(l)
        for (b, i, node, how) in R.uses_of(body, l):
            if i == R.TERM:
                if node["k"] == "call" and "fn" in node:
                    c = Callee(node["fn"])
                    last = c.path.split("::")[-1]
                    if last in ("ok_or_else", "ok_or", "branch", "cloned", "expect", "unwrap", "as_ref", "map", "inspect_err", "map_err"):
                        if node["dest"][1] == [] and last != "map":
                            work.append(node["dest"][0])
                            continue
                    if c.decl_path == "std::ops::Try::branch":
                        work.append(node["dest"][0])
                        continue
                    if last in ("map", "and_then", "map_or", "is_some_and", "filter") and ("Option" in c.path or "Result" in c.path) and len(node.get("args", [])) >= 2:
                        # `.map(|el| el.content_bbox)`: what the closure reads of its parameter
                        cid = R.closure_id_of_operand(body, node["args"][-1])
                        cb = body_prog_bodies.get(cid) if cid is not None else None
                        if cb is not None:
                            for x2, i2, st2 in cb.all_stmts():
                                rv2 = st2.get("rv") or {}
                                for o2 in [rv2.get("op"), rv2.get("a"), rv2.get("b")] + list(rv2.get("ops", [])) + ([{"c": rv2["place"]}] if rv2.get("k") in ("ref", "discr") and rv2.get("place") else []):
                                    pl2 = op_place(o2) if isinstance(o2, dict) else None
                                    if pl2 is not None and pl2[0] == 2:
                                        f2 = [z for z in pl2[1] if str(z).startswith(".")]
                                        uses.append(str(f2[0]) if f2 else "whole")
                            uses[:] = [u for u in uses if u != "whole"] or uses
                            continue
                    uses.append("call:" + c.path)
                continue
            rv = node.get("rv")
            if rv is None:
                continue
            if how == "discr":
                continue
            if how in ("operand", "ref"):
                places = [op_place(o) for o in R.operands_of_rvalue(rv)] if how == "operand" else [P(rv["place"])]
                for pl in places:
                    if pl is None or pl[0] != l:
                        continue
                    if any(x in ("as Break", "as Err", "as None") for x in pl[1]):
                        continue  # the error side of `?`, not the element
                    named = [p for p in pl[1] if p.startswith(".") and not p[1:].isdigit()]
                    if named:
                        uses.append(named[0])
                    elif not node["lhs"][1]:
                        work.append(node["lhs"][0])
    return uses


def _instance_local(ru):
    """the named local that finally holds the clone of get_original_element(..) (the last of the move chain)"""
    cands = {}
    for b, i, s in ru.all_stmts():
        if "lhs" in s and not s["lhs"][1] and ru.local_name(s["lhs"][0]) and s["rv"]["k"] == "use":
            p, o = R.call_origin_path(ru, s["rv"]["op"])
            if p == CTX + "::get_original_element":
                cands[s["lhs"][0]] = op_place(s["rv"]["op"])
    moved_on = {src[0] for src in cands.values() if src is not None and not src[1] and src[0] in cands}
    final = [c for c in cands if c not in moved_on]
    return final[0] if len(final) == 1 else None


def _reuse_local(ru):
    for (b, t, c) in R.calls_to(ru, R.path_is(C15.PUSH)):
        return R.origin_local(ru, t["args"][1])
    return None


def identity_transfer(prog, chk):
    ru = _reuse_body(prog)
    inst = _instance_local(ru)
    reuse = _reuse_local(ru)
    if inst is None or reuse is None:
        chk.anchor_missing("A13.identity", "instance / reuse element locals not identifiable in ReuseElement")
        return

    def calls(name, recv, lit=None):
        out = []
        for (b, t, c) in R.calls_to(ru, R.path_is(EL + "::" + name)):
            if R.origin_local(ru, t["args"][0]) != recv:
                continue
            if lit is not None and (len(t["args"]) < 2 or const_str(_deref_const(ru, t["args"][1])) != lit):
                continue
            out.append((b, t))
        return out

    where = ru.where()
    pops = calls("pop_attr", inst, "id")
    chk.ob(len(pops) == 1, "A13.identity", "pop-target-id", where, "the template's own id is removed from the instance", "instance keeps the template id (duplicate ids)")
    # popped id re-added as class
    ac = calls("add_class", inst)
    ok = False
    if pops and ac:
        for (b, t) in ac:
            o = R.origin(ru, t["args"][1])
            if o[0] == "call" and o[1] == pops[0][0]:
                ok = True
    chk.ob(ok, "A13.identity", "id-as-class", where, "the popped template id is added to the instance as a class", "template id is not re-added as a class")
    for attr in ("id", "style"):
        sets = calls("set_attr", inst, attr)
        ok = False
        for (b, t) in sets:
            o = R.origin(ru, t["args"][2])
            if o[0] == "call" and "fn" in o[2] and Callee(o[2]["fn"]).path == EL + "::get_attr":
                gt = o[2]
                if R.origin_local(ru, gt["args"][0]) == reuse and const_str(_deref_const(ru, gt["args"][1])) == attr:
                    ok = True
        chk.ob(ok, "A13.identity", f"reuse-{attr}", where, f"the reuse element's {attr} is copied onto the instance", f"instance does not inherit the reuse element's {attr}")
    acs = calls("add_classes", inst)
    ok = False
    for (b, t) in acs:
        o = R.origin(ru, t["args"][1])
        if o[0] == "field" and o[1][1][-1] == ".classes" and (o[1][0] == reuse or R.origin_local(ru, {"c": [o[1][0], []]}) == reuse):
            ok = True
    chk.ob(ok, "A13.identity", "reuse-classes", where, "the reuse element's classes are added to the instance", "instance does not inherit the reuse element's classes")
    # the scope pushed is the (evaluated) reuse element: its attributes are the bindings
    evals = [x for x in R.calls_to(ru, R.path_is(EL + "::eval_attributes")) if R.origin_local(ru, x[1]["args"][0]) == reuse]
    pushes = R.calls_to(ru, R.path_is(C15.PUSH))
    chk.ob(
        bool(evals) and bool(pushes) and all(ru.dominates(e[0], p[0]) for e in evals for p in pushes),
        "A13.bindings",
        "reuse-attrs-evaluated-then-pushed",
        where,
        "the reuse element's attributes are evaluated in the outer scope and then pushed as the instance's bindings",
        "reuse attributes are not evaluated before being pushed as bindings",
    )


def _deref_const(body, op):
    o = R.origin(body, op)
    if o[0] == "const":
        return {"k": o[1]}
    return op


def specs(prog, chk):
    pt = prog.body("svgdx::transform::process_tags")
    reads = [r for r in R.place_reads(pt, (".in_specs",))]
    chk.floor("A13.specs-gating", len(reads), 1, "read of in_specs in process_tags")
    gate = None
    for (bb, idx, node) in reads:
        if idx != R.TERM and "lhs" in node and not node["lhs"][1]:
            # value may be negated first
            cons = R.forward_value_uses(pt, node["lhs"][0])
            for (b, i, n, how, _c) in cons:
                if i == R.TERM and n["k"] == "switch":
                    gate = (b, n, False)
                elif i != R.TERM and n.get("rv", {}).get("k") == "unop" and n["rv"]["op"] == "Not":
                    for (b2, i2, n2, how2, _c2) in R.forward_value_uses(pt, n["lhs"][0]):
                        if i2 == R.TERM and n2["k"] == "switch":
                            gate = (b2, n2, True)
    if gate is None:
        chk.bad("A13.specs-gating", "process_tags:gate", pt.where(), "in_specs is not branched on in process_tags")
    else:
        sb, st, negated = gate
        true_t, false_t = R.switch_targets_bool(st)
        not_specs_t = true_t if negated else false_t
        edge = (sb, not_specs_t)
        sinks = []
        for (b, t, c) in R.calls_to(pt, lambda c: (c.path.startswith("std::collections::BTreeMap") and c.path.endswith("::insert")) or c.path == "svgdx::position::BoundingBoxBuilder::extend"):
            sinks.append((b, t, c))
        chk.floor("A13.specs-gating.sinks", len(sinks), 2, "output insert / bbox extend in process_tags")
        for (b, t, c) in sinks:
            chk.ob(
                R.control_dependent_only_via(pt, b, edge),
                "A13.specs-gating",
                "process_tags:" + c.path.split("::")[-1],
                pt.where(b, t.get("line")),
                f"{c.path.split('::')[-1]} (output / bbox contribution) happens only when !in_specs",
                f"{c.path.split('::')[-1]} is reachable while in_specs: content of <specs> would be rendered or enlarge the drawing",
            )
    sp = prog.body(SPECS)
    chk.touch(sp)
    # returns an empty list
    oks = []
    for b in sp.return_blocks:
        pass
    empty = True
    n_ok = 0
    for b, i, s in sp.all_stmts():
        if "lhs" in s and s["lhs"][0] in sp.ret_locals and not s["lhs"][1] and s["rv"]["k"] == "aggr" and s["rv"].get("variant") == "Ok":
            # (OutputList::new(), None), or a struct that carries the two
            comps = R.result_components(sp, s["rv"]["ops"][0])
            if comps is None:
                continue
            n_ok += 1
            good = False
            if len(comps["events"]) == 1 and len(comps["bbox"]) == 1:
                p0, _ = R.call_origin_path(sp, comps["events"][0])
                o1 = sp.chase(comps["bbox"][0])
                good = p0 == "svgdx::events::OutputList::new" and o1[0] == "rv" and o1[1].get("variant") == "None"
            empty = empty and good
    if n_ok == 0:
        chk.undecided("A13.specs-empty", "SpecsElement:return", sp.where(), "no successful exit of SpecsElement builds its result (events, box) in a form this rule reads")
    else:
      chk.ob(n_ok >= 1 and empty, "A13.specs-empty", "SpecsElement:return", sp.where(), "SpecsElement returns an empty event list and no bbox", "SpecsElement can return events or a bbox")
    # in_specs flag pairing
    assigns = R.field_assigns(sp, (".in_specs",))
    opens = [(b, i) for (b, i, s) in assigns if const_bool(s["rv"].get("op")) is True]
    closes = [(b, i) for (b, i, s) in assigns if const_bool(s["rv"].get("op")) is False]
    chk.floor("A5.in-specs", len(opens), 1, "in_specs = true")
    for (b, i) in opens:
        esc = R.escapes(sp, (b, i), closes)
        chk.ob(
            not esc,
            "A5.in-specs",
            "SpecsElement",
            sp.where(b, sp.stmts(b)[i].get("line")),
            "in_specs is reset on every exit after being set (incl. the error exit of the block's content)",
            f"{len(esc)} exit(s) leave in_specs set: everything after the failing <specs> would be discarded silently (via lines {[R.path_lines(sp, p)[-3:] for p in esc][:3]})",
            path=esc[0] if esc else None,
        )
    w = R.field_writers(prog, "in_specs", CTX)
    w = {k for k in w if not k.endswith("::default")}
    chk.ob(w == {SPECS}, "A10.in-specs-writers", "in_specs", "src/transform.rs", "in_specs is written only by SpecsElement", f"in_specs writers: {sorted(w)}")


def transform_order(prog, chk):
    """wherever an element's existing `transform` is combined with the translate(x, y) that places it, the existing
    transform comes first (both placement paths must compose in the same order)"""
    import re
    from sa import hirq

    total = 0
    for path in ("svgdx::position::Position::set_position_attrs", "svgdx::position::Position::position_via_transform"):
        b = prog.body(path)
        chk.touch(b)
        h = prog.hir[b.id]
        exist, trans = set(), set()

        def classify(name, init):
            if init is None:
                return
            for m in hirq.exprs(init, "MethodCall"):
                if m["name"] in ("get_attr", "get", "pop_attr") and m["args"] and hirq.lit_str(m["args"][0]) == "transform":
                    exist.add(name)
            for c in list(hirq.exprs(init, "Call")) + list(hirq.exprs(init, "Block")):
                r = hirq.render_string_expr(c)
                if r and "translate(" in r:
                    trans.add(name)

        for st in hirq.walk(h["body"]):
            if st.get("k") in ("Let", "LetCond") and isinstance(st.get("pat"), dict):
                for q in hirq.walk(st["pat"]):
                    if isinstance(q, dict) and q.get("p") == "bind":
                        classify(q["name"], st.get("init"))
            if st.get("k") == "Assign" and st["l"].get("k") == "Path" and (st["l"].get("res") or {}).get("local"):
                pass
        sites = []
        for n in hirq.walk(h["body"]):
            if not isinstance(n, dict):
                continue
            seq = None
            if n.get("k") == "Array":
                seq = [(it.get("res") or {}).get("local") if it.get("k") == "Path" else None for it in n.get("items", [])]
            elif n.get("k") in ("Call", "Block"):
                r = hirq.render_string_expr(n)
                if r:
                    seq = re.findall(r"\{([A-Za-z_][A-Za-z0-9_]*)\}", r)
            if not seq:
                continue
            e = [i for i, x in enumerate(seq) if x in exist]
            t = [i for i, x in enumerate(seq) if x in trans and x not in exist]
            if e and t:
                sites.append((n.get("line"), max(e) < min(t), seq))
        seen = set()
        for line, ok, seq in sites:
            if (line, tuple(seq)) in seen:
                continue
            seen.add((line, tuple(seq)))
            total += 1
            chk.ob(ok, "A16.transform-order", f"{b.short}#{len(seen)}", b.where(line=line), f"{b.short}: the existing transform precedes the placing translate() ({' '.join(seq)})", f"{b.short}: the placing translate() is put BEFORE the element's existing transform ({' '.join(seq)}): a reused group/symbol that carries a transform is placed differently from the other placement path")
    chk.floor("A16.transform-order", total, 2, "site combining an existing transform with the placing translate()")


def via_transform_guard(prog, chk):
    """position_via_transform translates whenever the offset is not (0, 0) - negative offsets included: the guard compares
    x and y with 0 for inequality"""
    b = prog.body("svgdx::position::Position::position_via_transform")
    chk.touch(b)
    sets = {bb for (bb, t, c) in b.call_sites(R.path_endswith("SvgElement::set_attr"))}
    if not sets:
        chk.anchor_missing("A7.via-transform", "position_via_transform: set_attr not found")
        return
    from sa import discharge as D
    ops = []
    for x in sets:
        for (a, tgt) in D.dominating_edges(b, x):
            t = b.term(a)
            if t["k"] == "switch":
                o = R.origin(b, t["op"], carriers={})
                if o[0] == "rv" and o[1].get("k") == "binop":
                    ops.append(o[1]["op"])
    # `x != 0. || y != 0.`: both comparisons are Ne (the second one sits on the false edge of the first, so only one of
    # them dominates); any ordering comparison (Gt / Lt ...) excludes one sign
    cmps = [st["rv"]["op"] for x, i, st in b.all_stmts() if st.get("rv", {}).get("k") == "binop" and st["rv"].get("aty") == "f32" and st["rv"]["op"] in ("Ne", "Eq", "Gt", "Ge", "Lt", "Le")]
    ok = bool(cmps) and all(op in ("Ne", "Eq") for op in cmps)
    chk.ob(ok, "A7.via-transform", "position_via_transform", b.where(), "the translate is applied for every non-zero offset (x != 0 || y != 0)", f"position_via_transform decides with ordering comparisons {cmps}: offsets of one sign (e.g. x=\"-10\") are treated as zero and the instance is left at the origin")
