#!/usr/bin/env python3
"""run_many.py <repo> <ID>...  -- the quick rules of several properties on one analysed tree (facts loaded once).
Developer / variant-runner tool: prints `<ID> rc=<n> <keys>` per property; evidence goes to $SVGDX_SA_EVIDENCE_DIR."""
import contextlib
import importlib
import io
import os
import sys
import traceback

sys.path.insert(0, os.path.dirname(os.path.abspath(__file__)))
from sa import facts, prog as progmod, report  # noqa: E402
import run as runmod  # noqa: E402


def main(argv):
    repo, ids = argv[1], argv[2:]
    try:
        program = progmod.Program(facts.load(repo, "default"))
    except Exception as e:
        for pid in ids:
            print(f"{pid} rc=2 ERROR: could not analyse: {str(e)[:200]}")
        return 0
    for pid in ids:
        mod = importlib.import_module(f"props.{pid}")
        chk = report.Check(pid, "quick")
        buf = io.StringIO()
        with contextlib.redirect_stdout(buf):
            try:
                mod.run(program, chk)
            except progmod.AnchorMissing as e:
                chk.anchor_missing("anchor", str(e))
            except (SyntaxError, ImportError, NameError):
                raise  # a defect of the checker itself: never "undecided"
            except Exception as e:
                tb = traceback.extract_tb(e.__traceback__)
                where = next((f"{os.path.basename(fr.filename)}:{fr.name}" for fr in reversed(tb) if "/props/" in fr.filename), "?")
                chk.anchor_missing("rule-cannot-analyse", f"{where}: {type(e).__name__}: {str(e)[:120]}")
            rc = report.finish(chk, program, explanation=mod.EXPLANATION, trusted_base=getattr(mod, "TRUSTED", []) + runmod.COMMON_TRUSTED, assumptions=getattr(mod, "ASSUMPTIONS", []), seed=0)
        keys = [l.split("key=")[1].strip() for l in buf.getvalue().splitlines() if l.strip().startswith("rule=") and "key=" in l]
        print(f"{pid} rc={rc} " + " ; ".join(keys), flush=True)
    return 0


if __name__ == "__main__":
    sys.exit(main(sys.argv))
