#!/usr/bin/env python3
"""developer tool: print what the affine evaluator sees at the watched calls of a function
usage: geom_explore.py <fn path> <watch,...> [--name N] [--preset TYPE=VARIANT] [--alias TYPE=NAME] [--arg i=true|false|Variant] [--opaque path]"""
import sys, os
sys.path.insert(0, os.path.dirname(os.path.abspath(__file__)))
from sa import facts, prog, algebra as A

def main(a):
    P = prog.Program(facts.load(os.environ.get("REPO", "/repo"), "default"))
    fn, watch = a[0], a[1].split(",")
    presets, alias, name, args, opaque, transparent = {}, {}, None, {}, [], ["fstr"]
    i = 2
    while i < len(a):
        if a[i] == "--name": name = a[i+1]
        elif a[i] == "--preset": k, v = a[i+1].split("="); presets[k] = ("variant", v)
        elif a[i] == "--alias": k, v = a[i+1].split("="); alias[k] = v
        elif a[i] == "--arg": k, v = a[i+1].split("="); args[int(k)] = ("bool", v == "true") if v in ("true", "false") else ("obj", v)
        elif a[i] == "--opaque": opaque.append(a[i+1])
        i += 2
    ev = A.Evaluator(P, presets=presets, type_alias=alias, watch=watch, name_case=name, opaque=opaque, transparent=transparent)
    h = ev.by_path[fn]
    n = len([p for p in h["params"] if p.get("name") != "self"])
    argv = [args.get(k + 1) if (k + 1) in args else ("obj", f"${k+1}") for k in range(n)] if args else None
    s = ev.summary(fn, args=argv)
    print("ret :", A.canon(s["ret"])[:600])
    print("self:", A.canon(s["self"])[:600])
    for c in ev.calls:
        print(f"  {c['name']}@{c['line']}: recv={A.canon(c['recv'])[:60]} args=[{', '.join(A.canon(x) for x in c['args'])}]")

main(sys.argv[1:])
