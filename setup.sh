#!/bin/bash
# Build the analysis driver (nightly, rustc_private, no cargo deps) and warm the dependency
# metadata cache so that each check only re-analyses the svgdx crate itself. Offline.
set -e
cd "$(dirname "$0")"
export CARGO_NET_OFFLINE=true
(cd driver && cargo build --offline 2>&1 | tail -2)
mkdir -p .cache
# warm: one analysis of /repo (type-checks the dependencies once, ~40 s)
python3 - <<'PY'
import sys, os
sys.path.insert(0, os.path.join(os.getcwd(), "policy"))
from sa import facts
d = facts.run_driver("/repo", "default")
print("facts:", d, sorted(os.listdir(d)))
PY
