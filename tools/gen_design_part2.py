#!/usr/bin/env python3
"""Regenerate Part II of DESIGN.md from tools/design_part2.tmpl.md and seeded/RESULTS.json (the @@TABLE@@ marker)."""
import json
import os
import re

V = os.path.dirname(os.path.dirname(os.path.abspath(__file__)))
r = json.load(open(os.path.join(V, "seeded", "RESULTS.json")))
lines = ["| change | what it breaks (one line) | caught by |", "|---|---|---|"]
for name in sorted(r):
    res = r[name]
    mp = os.path.join(V, "seeded", name, "meta.json")
    own, summ = "", "(self-test written with the checks)"
    if os.path.exists(mp):
        m = json.load(open(mp))
        own, summ = m["property"], m.get("summary", "")
    caught = sorted((p for p, x in res.items() if x["rc"] == 1), key=lambda x: (x != own, x))
    cell = []
    for p in caught:
        rules = sorted({k.split("/")[0] for k in res[p]["keys"]})
        cell.append(f"**{p}** {', '.join(rules)}" if p == own or not own else p)
    summ = re.sub(r"\s+", " ", summ).replace("|", "/")
    if len(summ) > 150:
        summ = summ[:147] + "..."
    lines.append(f"| {name} | {summ} | {'; '.join(cell) if cell else '**not caught**'} |")
nconf = len([n for n in r if os.path.exists(os.path.join(V, "seeded", n, "meta.json"))])
part = open(os.path.join(V, "tools", "design_part2.tmpl.md")).read().replace("@@TABLE@@", "\n".join(lines)).replace("@@NCONF@@", str(nconf))
dp = os.path.join(V, "DESIGN.md")
d = open(dp).read()
marker = "\n---------------------------------------------------------------------------\n\n# Part II — as built"
if marker in d:
    d = d[: d.index(marker)]
open(dp, "w").write(d.rstrip("\n") + "\n" + part)
print("DESIGN.md Part II regenerated:", len(lines) - 2, "changes")
