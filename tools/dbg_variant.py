#!/usr/bin/env python3
"""dbg_variant.py <patch.diff> <ID>... : developer tool - apply a patch to a scratch copy of /repo, run the quick rules
of the given properties and print every violated / undecided obligation in full.  The scratch copy is removed."""
import contextlib
import importlib
import io
import os
import shutil
import sys

VERIF = os.path.dirname(os.path.dirname(os.path.abspath(__file__)))
sys.path.insert(0, os.path.join(VERIF, "policy"))
import variant  # noqa: E402
from sa import facts, prog as progmod, report  # noqa: E402


def main():
    patch, ids = sys.argv[1], sys.argv[2:]
    d = variant.make_variant("patch", patch)
    try:
        program = progmod.Program(facts.load(d, "default"))
        print("renamed:", program.renamed, "inlined:", program.inlined)
        for pid in ids:
            mod = importlib.import_module(f"props.{pid}")
            chk = report.Check(pid, "quick")
            os.environ["SVGDX_SA_EVIDENCE_DIR"] = os.environ["SVGDX_SA_REPLAY_DIR"] = d
            buf = io.StringIO()
            with contextlib.redirect_stdout(buf):
                mod.run(program, chk)
            for o in chk.obs:
                if o["status"] != "discharged":
                    print(f"--- {pid} {o['rule']} key={o['key']} status={o['status']}\n    where={o.get('where')}\n    {o['detail']}")
    finally:
        shutil.rmtree(d, ignore_errors=True)


main()
