#!/bin/bash
# Confirm candidate mutations independently: applies, compiles, full suite passes, demo passes on the
# clean tree and fails on the mutated tree.  usage: confirm_seeded.sh <outdir-of-agent>/<ID>/<mK> ...
# Result: /verif/seeded/<ID>-<mK>/{patch.diff,demo.*,meta.json}; a line per mutant on stdout.
set -u
WT=/tmp/confirm/wt-$$
export CARGO_TARGET_DIR=/tmp/confirm/target-${CONFIRM_SLOT:-0}
export CARGO_NET_OFFLINE=true
mkdir -p /tmp/confirm
git -C /repo worktree add --detach "$WT" HEAD -q || exit 2
trap 'git -C /repo worktree remove --force "$WT" 2>/dev/null' EXIT
for src in "$@"; do
  id=$(basename "$(dirname "$src")"); k=$(basename "$src"); name="$id-$k"
  dst=/verif/seeded/$name
  if [ ! -f "$src/patch.diff" ]; then echo "$name: NO-PATCH"; continue; fi
  demo=$(ls "$src"/demo.sh 2>/dev/null | head -1)
  if [ -z "$demo" ]; then echo "$name: NO-DEMO-SH"; continue; fi
  cd "$WT" && git checkout -q -- . && git clean -fdq
  # clean tree: demo must pass
  bash "$demo" >/tmp/confirm/$name.clean.log 2>&1; rc_clean=$?
  if ! git apply --check "$src/patch.diff" 2>/dev/null; then echo "$name: PATCH-DOES-NOT-APPLY"; continue; fi
  git apply "$src/patch.diff"
  touched=$(git diff --name-only | tr '\n' ' ')
  if git diff --name-only | grep -qv '^src/'; then echo "$name: TOUCHES-NON-SRC ($touched)"; git checkout -q -- .; continue; fi
  if ! cargo build --offline >/tmp/confirm/$name.build.log 2>&1; then echo "$name: BUILD-FAILS"; git checkout -q -- .; continue; fi
  warn=$(grep -c '^warning' /tmp/confirm/$name.build.log)
  cargo test --workspace --offline >/tmp/confirm/$name.test.log 2>&1; rc_test=$?
  passed=$(grep -E '^test result' /tmp/confirm/$name.test.log | sed -E 's/.* ([0-9]+) passed.*/\1/' | paste -sd+ | bc)
  failed=$(grep -E '^test result' /tmp/confirm/$name.test.log | sed -E 's/.* ([0-9]+) failed.*/\1/' | paste -sd+ | bc)
  bash "$demo" >/tmp/confirm/$name.mut.log 2>&1; rc_mut=$?
  git checkout -q -- . && git clean -fdq
  verdict=REJECT
  if [ "$rc_clean" = 0 ] && [ "$rc_mut" != 0 ] && [ "$rc_test" = 0 ] && [ "$passed" = 328 ] && [ "$failed" = 0 ]; then verdict=CONFIRMED; fi
  echo "$name: $verdict clean_demo_rc=$rc_clean mutated_demo_rc=$rc_mut tests_passed=$passed failed=$failed warnings=$warn files=$touched"
  if [ "$verdict" = CONFIRMED ]; then
    mkdir -p "$dst"; cp "$src/patch.diff" "$dst/"; cp "$demo" "$dst/"
    python3 - "$src/meta.json" "$dst/meta.json" "$id" "$rc_clean" "$rc_mut" "$passed" "$touched" <<'PY'
import json,sys
src,dst,pid,rc_clean,rc_mut,passed,touched=sys.argv[1:8]
try: m=json.load(open(src))
except Exception: m={}
out={"property":pid,"summary":m.get("summary",""),"files":touched.split(),"needs":m.get("needs",""),
 "why_tests_pass":m.get("why_tests_pass",""),"author":"independent sub-agent given only the property text",
 "confirmed":{"how":"tools/confirm_seeded.sh in a scratch worktree of /repo HEAD: git apply; cargo build --offline; cargo test --workspace --offline; demo.sh on clean and mutated tree",
  "clean_demo_rc":int(rc_clean),"mutated_demo_rc":int(rc_mut),"tests_passed_with_mutation":int(passed),"tests_failed":0}}
json.dump(out,open(dst,"w"),indent=1)
PY
  fi
done
