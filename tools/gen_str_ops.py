#!/usr/bin/env python3
"""(Re)generate policy/tables/str_ops.json: the inventory of character-dropping / character-altering / tokenising string
operations per library function (closures folded into their function) and the list of library functions it was
reviewed against.  Run only after reviewing the diff it produces."""
import json
import os
import sys

V = os.path.dirname(os.path.dirname(os.path.abspath(__file__)))
sys.path.insert(0, os.path.join(V, "policy"))
from sa import facts, prog  # noqa: E402
from props import strops  # noqa: E402

P = prog.Program(facts.load("/repo", "default"))
cnt, where, edges, funcs = strops.survey(P)
ents = [dict(function=f, op=o, count=n) for (f, o), n in sorted(cnt.items())]
json.dump(
    dict(
        comment="Frozen inventory of string operations that drop, alter, search or tokenise characters, per library function (rule A14.str-ops; verdicts are per property scope and operation, see props/strops.py). A change here means the way some text / attribute value / class / expression is cut up or cleaned has changed: review it, then regenerate with tools/gen_str_ops.py. `functions` lists the library functions that existed at review time with their callers: a function not listed is a new helper and belongs to the scope that calls it, unless it is recognised as the renaming of a listed function that has vanished (same module / impl, same callers). `adts` records the shape (kind, variant and field names) of every library type for the same purpose: a type that has vanished and a new one of the same shape in the same module are one type renamed.",
        entries=ents,
        functions={f: sorted(c for c, gs in edges.items() if f in gs) for f in sorted(funcs)},
        adts=strops.adt_shapes(P),
        signatures=strops.signatures(P),
    ),
    open(os.path.join(V, "policy", "tables", "str_ops.json"), "w"),
    indent=1,
)
print(len(ents), "entries,", sum(cnt.values()), "sites,", len(funcs), "functions")
