#!/usr/bin/env python3
"""(Re)generate policy/tables/str_ops.json: the inventory of character-dropping / character-altering / tokenising string
operations per library function (closures folded into their function).  Run only after reviewing the diff it produces."""
import collections
import json
import os
import sys

V = os.path.dirname(os.path.dirname(os.path.abspath(__file__)))
sys.path.insert(0, os.path.join(V, "policy"))
from sa import facts, prog  # noqa: E402
from props.C01 import strip_closures  # noqa: E402
from props.strops import STR_OPS, is_str_op  # noqa: E402

P = prog.Program(facts.load("/repo", "default"))
cnt = collections.Counter()
for b in P.bodies.values():
    if b.unit != "svgdx-lib":
        continue
    for (bb, t, c) in b.call_sites(is_str_op):
        cnt[(strip_closures(b.path), c.path.split("::")[-1])] += 1
ents = [dict(function=f, op=o, count=n) for (f, o), n in sorted(cnt.items())]
json.dump(dict(comment="Frozen inventory of string operations that drop, alter or tokenise characters, per library function (rule A14.str-ops). A change here means the way some text / attribute value / class / expression is cut up or cleaned has changed: review it, then regenerate with tools/gen_str_ops.py.", entries=ents), open(os.path.join(V, "policy", "tables", "str_ops.json"), "w"), indent=1)
print(len(ents), "entries,", sum(cnt.values()), "sites")
