#!/bin/bash
# developer tool: own_seeded.sh <ID>... - run each seeded change aimed at a property against that property's quick rules only
cd "$(dirname "$0")/.."
for id in "$@"; do
  ls -d seeded/$id-* | xargs -P 8 -I{} bash -c 'd={}; out=$(python3 policy/variant.py $d/patch.diff '$id' 2>&1 | grep "rc=" | tr "\n" "|"); echo "$(basename $d): $out"' | sort | awk '{ if ($0 ~ /rc=1/) c++; else print "MISS " $0 } END { print "'$id' caught " c }'
done
