#!/bin/bash
# developer tool: every quick check on /repo's current tree, in parallel; prints the summary lines and any violation
cd "$(dirname "$0")/.."
for i in $(seq -w 1 20); do ( ./check C$i quick > /tmp/quick_C$i.log 2>&1; echo "rc=$? $(grep -E '^C[0-9]+ \[quick\]' /tmp/quick_C$i.log | tail -1)"; grep -E "^VIOLATION|^UNDECIDED" /tmp/quick_C$i.log | cut -c1-300 ) & done; wait
