#!/usr/bin/env python3
"""Generate MANIFEST.json from policy/manifest_data.py (single source of truth)."""
import json, os, sys
sys.path.insert(0, os.path.join(os.path.dirname(os.path.abspath(__file__)), "..", "policy"))
import manifest_data as md

checks = []
for pid in sorted(md.CLAIMED):
    c = md.CLAIMED[pid]
    checks.append({
        "property_id": pid,
        "quick_cmd": f"./check {pid} quick",
        "thorough_cmd": f"./check {pid} thorough",
        "evidence_file": f"/verif/evidence/{pid}.json",
        "replay_cmd_template": "cat {path}",
        "engine": "svgdx-sa",
        "level_claimed": {"category": "other", "text": c["text"] + md.EXTRA_TEXT.get(pid, ""), "design_ref": c["design_ref"]},
        "level_note": c["note"],
        "technique": c["technique"],
    })
m = {
    "version": 1,
    "setup_cmd": "./setup.sh",
    "hooks": {
        "guard": "svgdx_verif",
        "enable": "none needed: static analysis reads the type-checked program; no instrumentation exists in /repo",
        "baseline_off_cmd": "cd /repo && cargo test --workspace --no-fail-fast --offline",
        "source_commits": [],
        "add_only": True,
    },
    "engines": [{
        "name": "svgdx-sa",
        "path": "/verif/driver + /verif/policy",
        "serves_properties": sorted(md.CLAIMED),
        "kind_free_text": "static analysis: rustc_private driver dumps MIR (CFG, resolved callees), typed HIR and item tables of /repo; Python policy layer evaluates repository-specific rules (typestate pairing, dominance/control dependence, who-may-write, error-fate, limit predicates, dispatch tables) with reviewed tables and fail-closed floors",
    }],
    "checks": checks,
    "notes": md.NOTES,
    "not_applicable": [{"property_id": k, "reason": v} for k, v in sorted(md.NOT_APPLICABLE.items())],
}
json.dump(m, open(os.path.join(os.path.dirname(os.path.abspath(__file__)), "..", "MANIFEST.json"), "w"), indent=1)
print("claimed:", sorted(md.CLAIMED), "n/a:", sorted(md.NOT_APPLICABLE))
