#!/bin/bash
# Re-confirm changes already kept under /verif/seeded against the current /repo HEAD (after a fix commit):
# applies, builds, full suite passes, demo passes on the clean tree and fails on the changed one.
# usage: reconfirm_seeded.sh <name> ...   -> one line per change; nothing is modified under /verif/seeded
set -u
WT=/tmp/confirm/wt-$$
export CARGO_TARGET_DIR=/tmp/confirm/target-${CONFIRM_SLOT:-0}
export CARGO_NET_OFFLINE=true
mkdir -p /tmp/confirm
git -C /repo worktree add --detach "$WT" HEAD -q || exit 2
trap 'git -C /repo worktree remove --force "$WT" 2>/dev/null' EXIT
for name in "$@"; do
  src=/verif/seeded/$name
  demo=$src/demo.sh
  cd "$WT" && git checkout -q -- . && git clean -fdq
  bash "$demo" >/tmp/confirm/$name.clean.log 2>&1; rc_clean=$?
  if ! git apply --check "$src/patch.diff" 2>/dev/null; then echo "$name: PATCH-DOES-NOT-APPLY"; continue; fi
  git apply "$src/patch.diff"
  if ! cargo build --offline >/tmp/confirm/$name.build.log 2>&1; then echo "$name: BUILD-FAILS"; git checkout -q -- .; continue; fi
  cargo test --workspace --offline >/tmp/confirm/$name.test.log 2>&1; rc_test=$?
  passed=$(grep -E '^test result' /tmp/confirm/$name.test.log | sed -E 's/.* ([0-9]+) passed.*/\1/' | paste -sd+ | bc)
  bash "$demo" >/tmp/confirm/$name.mut.log 2>&1; rc_mut=$?
  git checkout -q -- . && git clean -fdq
  verdict=STALE
  if [ "$rc_clean" = 0 ] && [ "$rc_mut" != 0 ] && [ "$rc_test" = 0 ] && [ "$passed" = 328 ]; then verdict=CONFIRMED; fi
  echo "$name: $verdict clean_demo_rc=$rc_clean mutated_demo_rc=$rc_mut tests_passed=$passed"
done
