#!/bin/bash
# compare rendering of all examples between a reference binary and /repo's current build
REF=${1:-/tmp/refbuild/debug/svgdx}; NEW=/repo/target/debug/svgdx
(cd /repo && cargo build --offline 2>&1 | tail -1)
n=0; d=0
for f in /repo/examples/*.xml; do
  a=$($REF "$f" 2>&1); ra=$?; b=$($NEW "$f" 2>&1); rb=$?
  n=$((n+1))
  if [ "$a" != "$b" ] || [ $ra != $rb ]; then d=$((d+1)); echo "DIFF $f"; fi
done
echo "examples: $n compared, $d differ"
