#!/bin/bash
# Confirm candidate behaviour-preserving refactorings: applies, builds without warnings, full suite passes, and the old
# and new binary give byte-identical stdout / stderr / exit status over examples/, the inputs used by the seeded
# demonstrations' own corpus (/verif/selftest/corpus if present) and any *.xml / *.svg the author left next to the patch.
# usage: confirm_neutral.sh <outdir>/<ID>/<nK> ...   -> /verif/selftest/neutral/<ID>-<nK>.diff when confirmed
set -u
WT=/tmp/confirm/wtn-$$
export CARGO_TARGET_DIR=/tmp/confirm/target-${CONFIRM_SLOT:-0}
export CARGO_NET_OFFLINE=true
mkdir -p /tmp/confirm
git -C /repo worktree add --detach "$WT" HEAD -q || exit 2
trap 'git -C /repo worktree remove --force "$WT" 2>/dev/null' EXIT
cd "$WT" && cargo build --offline >/tmp/confirm/neutral-base.build.log 2>&1 || { echo "BASE-BUILD-FAILS"; exit 2; }
cp "$CARGO_TARGET_DIR/debug/svgdx" /tmp/confirm/svgdx-base-$$
for src in "$@"; do
  id=$(basename "$(dirname "$src")"); k=$(basename "$src"); name="$id-$k"
  [ -f "$src/patch.diff" ] || { echo "$name: NO-PATCH"; continue; }
  cd "$WT" && git checkout -q -- . && git clean -fdq
  git apply --check "$src/patch.diff" 2>/dev/null || { echo "$name: PATCH-DOES-NOT-APPLY"; continue; }
  git apply "$src/patch.diff"
  if git diff --name-only | grep -qv '^src/'; then echo "$name: TOUCHES-NON-SRC"; continue; fi
  git add -A -N . >/dev/null 2>&1
  cargo build --offline >/tmp/confirm/$name.build.log 2>&1 || { echo "$name: BUILD-FAILS"; continue; }
  warn=$(grep -c '^warning' /tmp/confirm/$name.build.log)
  cargo test --workspace --offline >/tmp/confirm/$name.test.log 2>&1; rc_test=$?
  passed=$(grep -E '^test result' /tmp/confirm/$name.test.log | sed -E 's/.* ([0-9]+) passed.*/\1/' | paste -sd+ | bc)
  cp "$CARGO_TARGET_DIR/debug/svgdx" /tmp/confirm/svgdx-new-$$
  n=0; bad=0
  for f in "$WT"/examples/* /verif/selftest/corpus/* "$src"/*.xml "$src"/*.svg "$src"/inputs/* "$src"/*/*.xml "$src"/*/*.svg; do
    [ -f "$f" ] || continue
    n=$((n+1))
    for flags in "" "--debug --add-metadata" "--no-auto-styles --use-local-styles --seed 3"; do
      a=$( { /tmp/confirm/svgdx-base-$$ $flags "$f" 2>&1; echo "rc=$?"; } | sed -E 's/svgdx-[0-9a-f]{8}/svgdx-ID/g' | md5sum)
      b=$( { /tmp/confirm/svgdx-new-$$ $flags "$f" 2>&1; echo "rc=$?"; } | sed -E 's/svgdx-[0-9a-f]{8}/svgdx-ID/g' | md5sum)
      [ "$a" = "$b" ] || { bad=$((bad+1)); echo "   DIFF $f [$flags]" >> /tmp/confirm/$name.diff.log; }
    done
  done
  verdict=REJECT
  if [ "$rc_test" = 0 ] && [ "$passed" = 328 ] && [ "$bad" = 0 ] && [ "$warn" = 0 ]; then verdict=CONFIRMED; fi
  echo "$name: $verdict tests_passed=$passed warnings=$warn inputs_compared=$n outputs_differing=$bad files=$(git diff --name-only | tr '\n' ' ')"
  if [ "$verdict" = CONFIRMED ]; then
    git diff > /verif/selftest/neutral/$name.diff
    [ -f "$src/meta.json" ] && cp "$src/meta.json" /verif/selftest/neutral/$name.meta.json
  fi
done
rm -f /tmp/confirm/svgdx-base-$$ /tmp/confirm/svgdx-new-$$
