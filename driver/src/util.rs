use crate::json::J;
use rustc_hir::def_id::{DefId, LOCAL_CRATE};
use rustc_middle::ty::print::{with_crate_prefix, with_no_trimmed_paths};
use rustc_middle::ty::{GenericArgsRef, Ty, TyCtxt};
use rustc_span::Span;

fn fix_crate(tcx: TyCtxt<'_>, s: String) -> String {
    if s.contains("crate::") {
        let cname = tcx.crate_name(LOCAL_CRATE).to_string();
        s.replace("crate::", &format!("{}::", cname))
    } else {
        s
    }
}

/// Human-readable, crate-qualified path of a definition (no generic args).
pub fn path_of(tcx: TyCtxt<'_>, did: DefId) -> String {
    let s = with_no_trimmed_paths!(with_crate_prefix!(tcx.def_path_str(did)));
    fix_crate(tcx, s)
}

pub fn path_with_args<'tcx>(tcx: TyCtxt<'tcx>, did: DefId, args: GenericArgsRef<'tcx>) -> String {
    let s = with_no_trimmed_paths!(with_crate_prefix!(tcx.def_path_str_with_args(did, args)));
    fix_crate(tcx, s)
}

/// Unique, position-free key of a definition: crate name + verbose def path.
pub fn key_of(tcx: TyCtxt<'_>, did: DefId) -> String {
    format!(
        "{}{}",
        tcx.crate_name(did.krate),
        tcx.def_path(did).to_string_no_crate_verbose()
    )
}

pub fn ty_str<'tcx>(tcx: TyCtxt<'tcx>, ty: Ty<'tcx>) -> String {
    let s = with_no_trimmed_paths!(with_crate_prefix!(format!("{}", ty)));
    fix_crate(tcx, s)
}

/// (file, line, from_expansion, callsite_line)
pub fn loc(tcx: TyCtxt<'_>, span: Span) -> (String, usize, bool, usize) {
    let sm = tcx.sess.source_map();
    let exp = span.from_expansion();
    let cs = span.source_callsite();
    let l = sm.lookup_char_pos(cs.lo());
    let file = format!("{}", l.file.name.prefer_local_unconditionally());
    let own = if exp {
        sm.lookup_char_pos(span.lo()).line
    } else {
        l.line
    };
    (file, own, exp, l.line)
}

pub fn line_fields(tcx: TyCtxt<'_>, span: Span, o: crate::json::ObjB) -> crate::json::ObjB {
    if span.is_dummy() {
        return o;
    }
    let (_f, _own, exp, cs) = loc(tcx, span);
    let o = o.i("line", cs);
    if exp {
        o.b("exp", true)
    } else {
        o
    }
}

pub fn snippet(tcx: TyCtxt<'_>, span: Span) -> Option<String> {
    tcx.sess.source_map().span_to_snippet(span).ok()
}

pub fn jstr_opt(s: Option<String>) -> J {
    match s {
        Some(s) => J::Str(s),
        None => J::Null,
    }
}

/// Does the (external or local) definition carry a `# Panics` doc section?
pub fn doc_has_panics(tcx: TyCtxt<'_>, did: DefId) -> bool {
    for attr in tcx.get_all_attrs(did) {
        if let Some((sym, _kind)) = attr.doc_str_and_fragment_kind() {
            if sym.as_str().contains("# Panics") {
                return true;
            }
        }
    }
    false
}
