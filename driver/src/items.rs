//! Item tables: statics, consts, ADTs with fields, impls, fn signatures.

use crate::json::J;
use crate::util::*;
use rustc_hir::def::DefKind;
use rustc_middle::ty::{self, TyCtxt, TypingEnv};

pub fn dump_all(tcx: TyCtxt<'_>) -> J {
    let mut out = Vec::new();
    for ldid in tcx.hir_crate_items(()).definitions() {
        let did = ldid.to_def_id();
        let kind = tcx.def_kind(did);
        let (file, line, exp, _) = loc(tcx, tcx.def_span(did));
        let base = || {
            let o = J::obj()
                .s("id", key_of(tcx, did))
                .s("path", path_of(tcx, did))
                .s("file", file.clone())
                .i("line", line);
            if exp {
                o.b("from_macro", true)
            } else {
                o
            }
        };
        match kind {
            DefKind::Static { mutability, nested, .. } => {
                let ty = tcx.type_of(did).instantiate_identity().skip_norm_wip();
                let tenv = TypingEnv::post_analysis(tcx, did);
                let freeze = ty.is_freeze(tcx, tenv);
                let tl = tcx.is_thread_local_static(did);
                out.push(
                    base()
                        .s("item", "static")
                        .s("ty", ty_str(tcx, ty))
                        .b("mutable", mutability.is_mut())
                        .b("freeze", freeze)
                        .b("thread_local", tl)
                        .b("nested", nested)
                        .done(),
                );
            }
            DefKind::Const { .. } | DefKind::AssocConst { .. } => {
                let ty = tcx.type_of(did).instantiate_identity().skip_norm_wip();
                out.push(base().s("item", "const").s("ty", ty_str(tcx, ty)).done());
            }
            DefKind::Struct | DefKind::Enum | DefKind::Union => {
                let adt = tcx.adt_def(did);
                let mut variants = Vec::new();
                for v in adt.variants() {
                    let mut fields = Vec::new();
                    for f in &v.fields {
                        let fty = tcx.type_of(f.did).instantiate_identity().skip_norm_wip();
                        fields.push(
                            J::obj()
                                .s("name", f.name.to_string())
                                .s("ty", ty_str(tcx, fty))
                                .s(
                                    "vis",
                                    if f.vis.is_public() {
                                        "pub".to_string()
                                    } else {
                                        format!("{:?}", f.vis)
                                    },
                                )
                                .done(),
                        );
                    }
                    variants.push(
                        J::obj()
                            .s("name", v.name.to_string())
                            .s("discr", format!("{:?}", v.discr))
                            .f("fields", J::Arr(fields))
                            .done(),
                    );
                }
                out.push(
                    base()
                        .s("item", "adt")
                        .s("adt_kind", format!("{:?}", kind))
                        .f("variants", J::Arr(variants))
                        .done(),
                );
            }
            DefKind::Impl { of_trait } => {
                let self_ty = tcx.type_of(did).instantiate_identity().skip_norm_wip();
                let mut o = base().s("item", "impl").s("self_ty", ty_str(tcx, self_ty));
                if of_trait {
                    let tr = tcx.impl_trait_ref(did).instantiate_identity().skip_norm_wip();
                    o = o.s("trait", path_of(tcx, tr.def_id));
                    o = o.s("trait_ref", format!("{}", rustc_middle::ty::print::with_no_trimmed_paths!(tr.to_string())));
                }
                let mut methods = Vec::new();
                for ai in tcx.associated_items(did).in_definition_order() {
                    if matches!(ai.kind, ty::AssocKind::Fn { .. }) {
                        let mut m = J::obj()
                            .s("name", ai.name().to_string())
                            .s("id", key_of(tcx, ai.def_id))
                            .s("path", path_of(tcx, ai.def_id));
                        if let Some(t) = ai.trait_item_def_id() {
                            m = m.s("trait_item", path_of(tcx, t));
                        }
                        methods.push(m.done());
                    }
                }
                out.push(o.f("methods", J::Arr(methods)).done());
            }
            DefKind::Fn | DefKind::AssocFn => {
                let sig = tcx.fn_sig(did).instantiate_identity().skip_norm_wip().skip_binder();
                let inputs: Vec<J> = sig.inputs().iter().map(|t| J::s(ty_str(tcx, *t))).collect();
                let vis = tcx.visibility(did);
                out.push(
                    base()
                        .s("item", "fn")
                        .f("inputs", J::Arr(inputs))
                        .s("output", ty_str(tcx, sig.output()))
                        .s(
                            "vis",
                            if vis.is_public() {
                                "pub".to_string()
                            } else {
                                format!("{:?}", vis)
                            },
                        )
                        .b("is_async", tcx.asyncness(did).is_async())
                        .done(),
                );
            }
            DefKind::Trait => {
                let mut methods = Vec::new();
                for ai in tcx.associated_items(did).in_definition_order() {
                    if matches!(ai.kind, ty::AssocKind::Fn { .. }) {
                        methods.push(
                            J::obj()
                                .s("name", ai.name().to_string())
                                .s("path", path_of(tcx, ai.def_id))
                                .b("has_default", ai.defaultness(tcx).has_value())
                                .done(),
                        );
                    }
                }
                out.push(base().s("item", "trait").f("methods", J::Arr(methods)).done());
            }
            _ => {}
        }
    }
    J::Arr(out)
}
