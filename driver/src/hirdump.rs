//! Dump the type-checked HIR expression tree of every local body (fn, method,
//! closure bodies are nested inside their parent; consts/statics included).
//! Method calls and paths are resolved through typeck results.

use crate::json::J;
use crate::util::*;
use rustc_ast::LitKind;
use rustc_hir as hir;
use rustc_hir::def::{DefKind, Res};
use rustc_hir::def_id::LocalDefId;
use rustc_hir::{Expr, ExprKind, Pat, PatExprKind, PatKind, QPath, StmtKind};
use rustc_middle::ty::{TyCtxt, TypeckResults};

pub fn dump_all(tcx: TyCtxt<'_>) -> J {
    let mut out = Vec::new();
    for ldid in tcx.hir_body_owners() {
        let kind = tcx.def_kind(ldid);
        if !matches!(
            kind,
            DefKind::Fn | DefKind::AssocFn | DefKind::Const { .. } | DefKind::Static { .. } | DefKind::AssocConst { .. }
        ) {
            continue;
        }
        out.push(dump_owner(tcx, ldid, kind));
    }
    J::Arr(out)
}

fn dump_owner(tcx: TyCtxt<'_>, ldid: LocalDefId, kind: DefKind) -> J {
    let did = ldid.to_def_id();
    let (file, line, _, _) = loc(tcx, tcx.def_span(did));
    let mut o = J::obj()
        .s("id", key_of(tcx, did))
        .s("path", path_of(tcx, did))
        .s("kind", format!("{:?}", kind).chars().take_while(|c| c.is_alphanumeric()).collect::<String>())
        .s("file", file)
        .i("line", line);
    if let Some(body) = tcx.hir_maybe_body_owned_by(ldid) {
        let tr = tcx.typeck(ldid);
        let cx = Hx { tcx, tr };
        let params: Vec<J> = body.params.iter().map(|p| cx.pat(p.pat)).collect();
        o = o.f("params", J::Arr(params));
        o = o.f("body", cx.expr(body.value));
    }
    o.done()
}

struct Hx<'tcx> {
    tcx: TyCtxt<'tcx>,
    tr: &'tcx TypeckResults<'tcx>,
}

impl<'tcx> Hx<'tcx> {
    fn res(&self, res: Res) -> J {
        match res {
            Res::Def(kind, did) => {
                let mut o = J::obj()
                    .s("dk", format!("{:?}", kind).chars().take(40).collect::<String>())
                    .s("path", path_of(self.tcx, did));
                // for enum variant constructors give the variant + enum
                if let DefKind::Ctor(..) = kind {
                    let parent = self.tcx.parent(did);
                    o = o.s("ctor_of", path_of(self.tcx, parent));
                }
                o.done()
            }
            Res::Local(hid) => J::obj()
                .s("local", self.tcx.hir_name(hid).to_string())
                .done(),
            Res::SelfCtor(_) => J::obj().s("selfctor", "Self").done(),
            Res::SelfTyAlias { .. } | Res::SelfTyParam { .. } => J::obj().s("selfty", "Self").done(),
            other => J::obj()
                .s("other", format!("{:?}", other).chars().take(60).collect::<String>())
                .done(),
        }
    }

    fn qpath(&self, qp: &QPath<'tcx>, hid: hir::HirId) -> J {
        self.res(self.tr.qpath_res(qp, hid))
    }

    fn lit(&self, l: &LitKind) -> J {
        match l {
            LitKind::Str(s, _) => J::obj().s("str", s.as_str()).done(),
            LitKind::ByteStr(b, _) | LitKind::CStr(b, _) => J::obj()
                .f(
                    "bytes",
                    J::Arr(b.as_byte_str().iter().map(|x| J::Int(*x as i128)).collect()),
                )
                .done(),
            LitKind::Byte(b) => J::obj().i("int", *b).done(),
            LitKind::Char(c) => J::obj().s("char", c.to_string()).done(),
            LitKind::Int(i, _) => J::obj().f("int", J::Int(i.get() as i128)).done(),
            LitKind::Float(s, _) => J::obj().s("float", s.as_str()).done(),
            LitKind::Bool(b) => J::obj().b("bool", *b).done(),
            LitKind::Err(_) => J::Null,
        }
    }

    fn pat(&self, p: &Pat<'tcx>) -> J {
        let o = match &p.kind {
            PatKind::Wild => J::obj().s("p", "wild"),
            PatKind::Missing => J::obj().s("p", "missing"),
            PatKind::Never => J::obj().s("p", "never"),
            PatKind::Binding(_mode, _hid, ident, sub) => {
                let mut o = J::obj().s("p", "bind").s("name", ident.name.to_string());
                if let Some(s) = sub {
                    o = o.f("sub", self.pat(s));
                }
                o
            }
            PatKind::Expr(pe) => self.pat_expr(pe),
            PatKind::Range(a, b, _) => {
                let mut o = J::obj().s("p", "range");
                if let Some(a) = a {
                    o = o.f("lo", self.pat_expr(a).done());
                }
                if let Some(b) = b {
                    o = o.f("hi", self.pat_expr(b).done());
                }
                o
            }
            PatKind::TupleStruct(qp, pats, _ddpos) => J::obj()
                .s("p", "tstruct")
                .f("res", self.qpath(qp, p.hir_id))
                .f("pats", J::Arr(pats.iter().map(|x| self.pat(x)).collect())),
            PatKind::Struct(qp, fields, _rest) => J::obj()
                .s("p", "struct")
                .f("res", self.qpath(qp, p.hir_id))
                .f(
                    "fields",
                    J::Arr(
                        fields
                            .iter()
                            .map(|f| {
                                J::obj()
                                    .s("name", f.ident.name.to_string())
                                    .f("pat", self.pat(f.pat))
                                    .done()
                            })
                            .collect(),
                    ),
                ),
            PatKind::Tuple(pats, _) => J::obj()
                .s("p", "tuple")
                .f("pats", J::Arr(pats.iter().map(|x| self.pat(x)).collect())),
            PatKind::Or(pats) => J::obj()
                .s("p", "or")
                .f("pats", J::Arr(pats.iter().map(|x| self.pat(x)).collect())),
            PatKind::Ref(inner, ..) | PatKind::Box(inner) | PatKind::Deref(inner) => {
                J::obj().s("p", "ref").f("sub", self.pat(inner))
            }
            PatKind::Guard(inner, cond) => J::obj()
                .s("p", "guard")
                .f("sub", self.pat(inner))
                .f("cond", self.expr(cond)),
            PatKind::Slice(a, mid, b) => {
                let mut o = J::obj()
                    .s("p", "slice")
                    .f("before", J::Arr(a.iter().map(|x| self.pat(x)).collect()))
                    .f("after", J::Arr(b.iter().map(|x| self.pat(x)).collect()));
                if let Some(m) = mid {
                    o = o.f("mid", self.pat(m));
                }
                o
            }
            PatKind::Err(_) => J::obj().s("p", "err"),
        };
        o.done()
    }

    fn pat_expr(&self, pe: &hir::PatExpr<'tcx>) -> crate::json::ObjB {
        match &pe.kind {
            PatExprKind::Lit { lit, negated } => J::obj()
                .s("p", "lit")
                .f("lit", self.lit(&lit.node))
                .b("neg", *negated),
            PatExprKind::Path(qp) => J::obj().s("p", "path").f("res", self.qpath(qp, pe.hir_id)),
            #[allow(unreachable_patterns)]
            _ => J::obj().s("p", "constblock"),
        }
    }

    fn block(&self, b: &hir::Block<'tcx>) -> J {
        let mut stmts = Vec::new();
        for st in b.stmts {
            match &st.kind {
                StmtKind::Let(l) => {
                    let mut o = J::obj().s("k", "Let").f("pat", self.pat(l.pat));
                    if let Some(init) = l.init {
                        o = o.f("init", self.expr(init));
                    }
                    if let Some(els) = l.els {
                        o = o.f("els", self.block(els));
                    }
                    stmts.push(line_fields(self.tcx, st.span, o).done());
                }
                StmtKind::Item(_) => {}
                StmtKind::Expr(e) | StmtKind::Semi(e) => stmts.push(self.expr(e)),
            }
        }
        let mut o = J::obj().s("k", "Block").f("stmts", J::Arr(stmts));
        if let Some(e) = b.expr {
            o = o.f("expr", self.expr(e));
        }
        o.done()
    }

    fn exprs(&self, es: &[Expr<'tcx>]) -> J {
        J::Arr(es.iter().map(|e| self.expr(e)).collect())
    }

    fn expr(&self, e: &Expr<'tcx>) -> J {
        let tcx = self.tcx;
        let mut o = match &e.kind {
            ExprKind::Lit(l) => J::obj().s("k", "Lit").f("lit", self.lit(&l.node)),
            ExprKind::Path(qp) => J::obj().s("k", "Path").f("res", self.qpath(qp, e.hir_id)),
            ExprKind::Call(f, args) => J::obj()
                .s("k", "Call")
                .f("f", self.expr(f))
                .f("args", self.exprs(args)),
            ExprKind::MethodCall(seg, recv, args, _) => {
                let mut o = J::obj().s("k", "MethodCall").s("name", seg.ident.name.to_string());
                if let Some(did) = self.tr.type_dependent_def_id(e.hir_id) {
                    o = o.s("def", path_of(tcx, did));
                    let gargs = self.tr.node_args(e.hir_id);
                    o = o.s("inst", path_with_args(tcx, did, gargs));
                }
                o = o.s("recv_ty", ty_str(tcx, self.tr.expr_ty_adjusted(recv)));
                o.f("recv", self.expr(recv)).f("args", self.exprs(args))
            }
            ExprKind::Match(scrut, arms, src) => {
                let arms_j: Vec<J> = arms
                    .iter()
                    .map(|a| {
                        let mut ao = J::obj().f("pat", self.pat(a.pat));
                        if let Some(g) = a.guard {
                            ao = ao.f("guard", self.expr(g));
                        }
                        ao = ao.f("body", self.expr(a.body));
                        line_fields(tcx, a.span, ao).done()
                    })
                    .collect();
                J::obj()
                    .s("k", "Match")
                    .s("src", format!("{:?}", src).chars().take_while(|c| c.is_alphanumeric()).collect::<String>())
                    .f("scrut", self.expr(scrut))
                    .f("arms", J::Arr(arms_j))
            }
            ExprKind::If(c, t, el) => {
                let mut o = J::obj().s("k", "If").f("cond", self.expr(c)).f("then", self.expr(t));
                if let Some(el) = el {
                    o = o.f("else", self.expr(el));
                }
                o
            }
            ExprKind::Let(l) => J::obj()
                .s("k", "LetCond")
                .f("pat", self.pat(l.pat))
                .f("init", self.expr(l.init)),
            ExprKind::Block(b, _) => {
                return self.block(b);
            }
            ExprKind::Loop(b, _, src, _) => J::obj()
                .s("k", "Loop")
                .s("src", format!("{:?}", src))
                .f("body", self.block(b)),
            ExprKind::Closure(c) => {
                let body = tcx.hir_body(c.body);
                let params: Vec<J> = body.params.iter().map(|p| self.pat(p.pat)).collect();
                J::obj()
                    .s("k", "Closure")
                    .s("id", key_of(tcx, c.def_id.to_def_id()))
                    .f("params", J::Arr(params))
                    .f("body", self.expr(body.value))
            }
            ExprKind::Assign(l, r, _) => J::obj().s("k", "Assign").f("l", self.expr(l)).f("r", self.expr(r)),
            ExprKind::AssignOp(op, l, r) => J::obj()
                .s("k", "AssignOp")
                .s("op", format!("{:?}", op.node))
                .f("l", self.expr(l))
                .f("r", self.expr(r)),
            ExprKind::Binary(op, l, r) => {
                let mut o = J::obj().s("k", "Binary").s("op", format!("{:?}", op.node));
                if let Some(did) = self.tr.type_dependent_def_id(e.hir_id) {
                    o = o.s("def", path_of(tcx, did));
                }
                o.f("l", self.expr(l)).f("r", self.expr(r))
            }
            ExprKind::Unary(op, x) => J::obj()
                .s("k", "Unary")
                .s("op", format!("{:?}", op))
                .f("x", self.expr(x)),
            ExprKind::Field(x, ident) => J::obj()
                .s("k", "Field")
                .s("name", ident.name.to_string())
                .s("base_ty", ty_str(tcx, self.tr.expr_ty_adjusted(x)))
                .f("x", self.expr(x)),
            ExprKind::Index(x, i, _) => J::obj().s("k", "Index").f("x", self.expr(x)).f("i", self.expr(i)),
            ExprKind::AddrOf(_, m, x) => J::obj()
                .s("k", "AddrOf")
                .b("mut", m.is_mut())
                .f("x", self.expr(x)),
            ExprKind::Array(es) => J::obj().s("k", "Array").f("items", self.exprs(es)),
            ExprKind::Tup(es) => J::obj().s("k", "Tup").f("items", self.exprs(es)),
            ExprKind::Struct(qp, fields, base) => {
                let fj: Vec<J> = fields
                    .iter()
                    .map(|f| {
                        J::obj()
                            .s("name", f.ident.name.to_string())
                            .f("v", self.expr(f.expr))
                            .done()
                    })
                    .collect();
                let mut o = J::obj()
                    .s("k", "Struct")
                    .f("res", self.qpath(qp, e.hir_id))
                    .f("fields", J::Arr(fj));
                if let hir::StructTailExpr::Base(b) = base {
                    o = o.f("base", self.expr(b));
                }
                o
            }
            ExprKind::Ret(x) => {
                let mut o = J::obj().s("k", "Ret");
                if let Some(x) = x {
                    o = o.f("x", self.expr(x));
                }
                o
            }
            ExprKind::Break(dest, x) => {
                let mut o = J::obj().s("k", "Break");
                if let Some(l) = dest.label {
                    o = o.s("label", l.ident.name.to_string());
                }
                if let Some(x) = x {
                    o = o.f("x", self.expr(x));
                }
                o
            }
            ExprKind::Continue(_) => J::obj().s("k", "Continue"),
            ExprKind::Cast(x, _) => J::obj().s("k", "Cast").f("x", self.expr(x)),
            ExprKind::Type(x, _) => J::obj().s("k", "Type").f("x", self.expr(x)),
            ExprKind::DropTemps(x) => {
                return self.expr(x);
            }
            ExprKind::Use(x, _) => J::obj().s("k", "Use").f("x", self.expr(x)),
            ExprKind::Repeat(x, _) => J::obj().s("k", "Repeat").f("x", self.expr(x)),
            ExprKind::Yield(x, _) => J::obj().s("k", "Yield").f("x", self.expr(x)),
            ExprKind::Become(x) => J::obj().s("k", "Become").f("x", self.expr(x)),
            ExprKind::ConstBlock(_) => J::obj().s("k", "ConstBlock"),
            ExprKind::InlineAsm(_) => J::obj().s("k", "InlineAsm"),
            ExprKind::OffsetOf(..) => J::obj().s("k", "OffsetOf"),
            ExprKind::UnsafeBinderCast(_, x, _) => J::obj().s("k", "UnsafeBinderCast").f("x", self.expr(x)),
            ExprKind::Err(_) => J::obj().s("k", "Err"),
            #[allow(unreachable_patterns)]
            _ => J::obj().s("k", "Unknown"),
        };
        // type of the expression (unadjusted) for selected node kinds
        match &e.kind {
            ExprKind::Lit(_) | ExprKind::Loop(..) | ExprKind::Ret(_) | ExprKind::Break(..) | ExprKind::Continue(_) => {}
            _ => {
                if let Some(t) = self.tr.expr_ty_opt(e) {
                    o = o.s("ty", ty_str(tcx, t));
                }
            }
        }
        line_fields(tcx, e.span, o).done()
    }
}
