//! svgdx-sa: a rustc_private driver that dumps the type-checked program of the
//! crate being compiled (MIR control-flow graphs with resolved callees, the
//! typed HIR expression trees, and item tables) as one JSON fact file per
//! compilation unit.  It never executes the analysed program.  All policy
//! (rules, tables, verdicts) lives in /verif/policy (Python).
//!
//! Used as RUSTC_WORKSPACE_WRAPPER: argv[1] is the real rustc and is dropped.

#![feature(rustc_private)]
#![allow(clippy::all)]

extern crate rustc_abi;
extern crate rustc_ast;
extern crate rustc_driver;
extern crate rustc_hir;
extern crate rustc_interface;
extern crate rustc_middle;
extern crate rustc_span;

mod hirdump;
mod items;
mod json;
mod mirdump;
mod util;

use json::J;
use rustc_driver::{Callbacks, Compilation};
use rustc_hir::def_id::LOCAL_CRATE;
use rustc_interface::interface::Compiler;
use rustc_middle::ty::TyCtxt;

struct Cb {
    out_dir: Option<String>,
    crate_types: String,
    features: Vec<String>,
}

impl Callbacks for Cb {
    fn after_analysis<'tcx>(&mut self, _c: &Compiler, tcx: TyCtxt<'tcx>) -> Compilation {
        let Some(out_dir) = self.out_dir.clone() else {
            return Compilation::Continue;
        };
        let cname = tcx.crate_name(LOCAL_CRATE).to_string();
        let want = std::env::var("SVGDX_SA_CRATES").unwrap_or_else(|_| "svgdx,svgdx_server".into());
        if !want.split(',').any(|w| w == cname) {
            return Compilation::Continue;
        }
        let t0 = std::time::Instant::now();
        let bodies = mirdump::dump_all(tcx);
        let hir = hirdump::dump_all(tcx);
        let items = items::dump_all(tcx);
        let nonce = std::env::var("SVGDX_SA_NONCE").unwrap_or_default();
        let features: Vec<J> = self.features.iter().map(|f| J::s(f.clone())).collect();
        let n_bodies = if let J::Arr(v) = &bodies { v.len() } else { 0 };
        let top = J::obj()
            .s("crate", cname.clone())
            .s("crate_types", self.crate_types.clone())
            .s("nonce", nonce)
            .f("features", J::Arr(features))
            .i("n_bodies", n_bodies)
            .f("bodies", bodies)
            .f("hir", hir)
            .f("items", items)
            .i("driver_ms", t0.elapsed().as_millis())
            .done();
        let mut s = String::with_capacity(1 << 24);
        top.write(&mut s);
        let kind = if self.crate_types.contains("bin") { "bin" } else { "lib" };
        let fname = format!("{}/facts-{}-{}.json", out_dir, cname, kind);
        // one write per process (parallel rustc processes never share a file)
        std::fs::write(&fname, s).expect("svgdx-sa: cannot write fact file");
        Compilation::Continue
    }
}

fn main() {
    let mut args: Vec<String> = std::env::args().collect();
    // RUSTC_WORKSPACE_WRAPPER protocol: argv[1] is the path of the real rustc
    if args.len() > 1 && (args[1].ends_with("rustc") || args[1].contains("/rustc")) {
        args.remove(1);
    }
    let mut crate_types = Vec::new();
    let mut features = Vec::new();
    let mut i = 0;
    while i < args.len() {
        if args[i] == "--crate-type" && i + 1 < args.len() {
            crate_types.push(args[i + 1].clone());
        }
        if args[i] == "--cfg" && i + 1 < args.len() {
            if let Some(f) = args[i + 1].strip_prefix("feature=") {
                features.push(f.trim_matches('"').to_string());
            }
        }
        i += 1;
    }
    let mut cb = Cb {
        out_dir: std::env::var("SVGDX_SA_OUT").ok(),
        crate_types: crate_types.join(","),
        features,
    };
    rustc_driver::run_compiler(&args, &mut cb);
}
