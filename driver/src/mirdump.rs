//! Dump MIR bodies (optimized_mir at mir-opt-level=0) of all local fns, methods and
//! closures with resolved callees.

use crate::json::J;
use crate::util::*;
use rustc_hir::def::DefKind;
use rustc_hir::def_id::{DefId, LocalDefId};
use rustc_middle::mir::{
    AggregateKind, AssertKind, BasicBlock, Body, BorrowKind, CastKind, Const, ConstOperand,
    ConstValue, Operand, Place, ProjectionElem, Rvalue, StatementKind, TerminatorKind,
    UnwindAction, VarDebugInfoContents,
};
use rustc_middle::ty::{self, Instance, InstanceKind, Ty, TyCtxt, TypingEnv};

pub fn dump_all(tcx: TyCtxt<'_>) -> J {
    let mut out = Vec::new();
    for ldid in tcx.hir_body_owners() {
        let kind = tcx.def_kind(ldid);
        if !matches!(kind, DefKind::Fn | DefKind::AssocFn | DefKind::Closure) {
            continue;
        }
        out.push(dump_fn(tcx, ldid, kind));
    }
    J::Arr(out)
}

fn dump_fn(tcx: TyCtxt<'_>, ldid: LocalDefId, kind: DefKind) -> J {
    let did = ldid.to_def_id();
    let body = tcx.optimized_mir(did);
    let span = tcx.def_span(did);
    let (file, line, _, _) = loc(tcx, span);
    let full_span = body.span;
    let end_line = tcx
        .sess
        .source_map()
        .lookup_char_pos(full_span.source_callsite().hi())
        .line;
    let mut o = J::obj()
        .s("id", key_of(tcx, did))
        .s("path", path_of(tcx, did))
        .s("kind", format!("{:?}", kind))
        .s("file", file)
        .i("line", line)
        .i("end_line", end_line)
        .b("from_macro", span.from_expansion());
    if kind == DefKind::Closure {
        let parent = tcx.typeck_root_def_id(did);
        o = o.s("root", key_of(tcx, parent));
        o = o.s("parent", key_of(tcx, tcx.parent(did)));
    }
    if matches!(kind, DefKind::Fn | DefKind::AssocFn) {
        let vis = tcx.visibility(did);
        o = o.s(
            "vis",
            if vis.is_public() {
                "pub".to_string()
            } else {
                format!("{:?}", vis)
            },
        );
        if kind == DefKind::AssocFn {
            let ai = tcx.associated_item(did);
            if let Some(tdid) = ai.trait_item_def_id() {
                o = o.s("trait_item", path_of(tcx, tdid));
            }
            let parent = tcx.parent(did);
            if matches!(tcx.def_kind(parent), DefKind::Impl { .. }) {
                let self_ty = tcx.type_of(parent).instantiate_identity().skip_norm_wip();
                o = o.s("self_ty", ty_str(tcx, self_ty));
            }
        }
    }
    o = o.f("mir", dump_body(tcx, did, body));
    let promoted = tcx.promoted_mir(did);
    let mut pv = Vec::new();
    for p in promoted.iter() {
        pv.push(dump_body(tcx, did, p));
    }
    o = o.f("promoted", J::Arr(pv));
    o.done()
}

struct Cx<'a, 'tcx> {
    tcx: TyCtxt<'tcx>,
    owner: DefId,
    body: &'a Body<'tcx>,
    tenv: TypingEnv<'tcx>,
}

fn dump_body<'tcx>(tcx: TyCtxt<'tcx>, owner: DefId, body: &Body<'tcx>) -> J {
    let cx = Cx {
        tcx,
        owner,
        body,
        tenv: TypingEnv::post_analysis(tcx, owner),
    };
    let mut locals = Vec::new();
    let mut names: Vec<Option<String>> = vec![None; body.local_decls.len()];
    for vdi in &body.var_debug_info {
        if let VarDebugInfoContents::Place(p) = vdi.value {
            if p.projection.is_empty() {
                names[p.local.as_usize()] = Some(vdi.name.to_string());
            }
        }
    }
    for (l, d) in body.local_decls.iter_enumerated() {
        let mut o = J::obj().s("ty", ty_str(tcx, d.ty));
        if let Some(n) = &names[l.as_usize()] {
            o = o.s("name", n.clone());
        }
        locals.push(o.done());
    }
    // captured upvars (closures): names through debug info with projections
    let mut upvars = Vec::new();
    for vdi in &body.var_debug_info {
        if let VarDebugInfoContents::Place(p) = vdi.value {
            if !p.projection.is_empty() {
                upvars.push(
                    J::obj()
                        .s("name", vdi.name.to_string())
                        .f("place", cx.place(&p))
                        .done(),
                );
            }
        }
    }
    let mut blocks = Vec::new();
    for (_bb, data) in body.basic_blocks.iter_enumerated() {
        let mut stmts = Vec::new();
        for st in &data.statements {
            if let Some(j) = cx.stmt(st) {
                stmts.push(j);
            }
        }
        let term = cx.term(data.terminator());
        let mut o = J::obj().f("s", J::Arr(stmts)).f("t", term);
        if data.is_cleanup {
            o = o.b("cleanup", true);
        }
        blocks.push(o.done());
    }
    J::obj()
        .i("argc", body.arg_count)
        .f("locals", J::Arr(locals))
        .f("upvars", J::Arr(upvars))
        .f("blocks", J::Arr(blocks))
        .done()
}

fn bbi(b: BasicBlock) -> J {
    J::Int(b.as_usize() as i128)
}

impl<'a, 'tcx> Cx<'a, 'tcx> {
    fn place(&self, p: &Place<'tcx>) -> J {
        let mut proj = Vec::new();
        let mut cur_ty = rustc_middle::mir::PlaceTy::from_ty(self.body.local_decls[p.local].ty);
        for elem in p.projection.iter() {
            let j = match elem {
                ProjectionElem::Deref => J::s("*"),
                ProjectionElem::Field(f, _ty) => {
                    // field name where the base is an ADT
                    let name = match cur_ty.ty.kind() {
                        ty::Adt(adt, _) => {
                            let vidx = cur_ty.variant_index.unwrap_or(rustc_abi::FIRST_VARIANT);
                            if adt.is_enum() && cur_ty.variant_index.is_none() {
                                format!("{}", f.as_usize())
                            } else {
                                adt.variant(vidx)
                                    .fields
                                    .get(f)
                                    .map(|fd| fd.name.to_string())
                                    .unwrap_or_else(|| format!("{}", f.as_usize()))
                            }
                        }
                        _ => format!("{}", f.as_usize()),
                    };
                    J::s(format!(".{}", name))
                }
                ProjectionElem::Index(l) => J::s(format!("[_{}]", l.as_usize())),
                ProjectionElem::ConstantIndex {
                    offset, from_end, ..
                } => J::s(format!("[{}{}]", if from_end { "-" } else { "" }, offset)),
                ProjectionElem::Subslice { from, to, from_end } => {
                    J::s(format!("[{}..{}{}]", from, if from_end { "-" } else { "" }, to))
                }
                ProjectionElem::Downcast(name, vidx) => match name {
                    Some(n) => J::s(format!("as {}", n)),
                    None => J::s(format!("as #{}", vidx.as_usize())),
                },
                ProjectionElem::OpaqueCast(_) => J::s("opaque"),
                ProjectionElem::UnwrapUnsafeBinder(_) => J::s("unwrap_binder"),
            };
            proj.push(j);
            cur_ty = cur_ty.projection_ty(self.tcx, elem);
        }
        J::Arr(vec![J::Int(p.local.as_usize() as i128), J::Arr(proj)])
    }

    fn place_ty(&self, p: &Place<'tcx>) -> Ty<'tcx> {
        p.ty(&self.body.local_decls, self.tcx).ty
    }

    fn konst(&self, c: &ConstOperand<'tcx>) -> J {
        let ty = c.const_.ty();
        let mut o = J::obj().s("ty", ty_str(self.tcx, ty));
        match ty.kind() {
            ty::FnDef(did, args) => {
                o = o.f("fn", self.callee(*did, args));
            }
            ty::Closure(did, _) => {
                o = o.s("closure", key_of(self.tcx, *did));
            }
            _ => {
                o = o.s("disp", format!("{}", c.const_));
                // exact value where cheaply available
                if let Ok(val) = c.const_.eval(self.tcx, self.tenv, c.span) {
                    if let Some(bytes) = slice_bytes(self.tcx, &val, ty) {
                        match std::str::from_utf8(bytes) {
                            Ok(s) if is_str_like(ty) => o = o.s("str", s),
                            _ => {
                                o = o.f(
                                    "bytes",
                                    J::Arr(bytes.iter().map(|b| J::Int(*b as i128)).collect()),
                                )
                            }
                        }
                    } else if let Some(si) = val.try_to_scalar_int() {
                        let size = si.size();
                        let bits = si.to_bits(size);
                        match ty.kind() {
                            ty::Bool => o = o.b("bool", bits != 0),
                            ty::Int(_) => {
                                let v = size.sign_extend(bits) as i128;
                                o = o.f("int", J::Int(v));
                            }
                            ty::Uint(_) => o = o.f("int", J::Int(bits as i128)),
                            ty::Char => {
                                o = o.s(
                                    "char",
                                    char::from_u32(bits as u32).map(|c| c.to_string()).unwrap_or_default(),
                                )
                            }
                            ty::Float(ft) => {
                                let f = match ft.bit_width() {
                                    32 => f32::from_bits(bits as u32) as f64,
                                    64 => f64::from_bits(bits as u64),
                                    _ => f64::NAN,
                                };
                                o = o.s("float", format!("{:?}", f));
                            }
                            _ => o = o.f("bits", J::Int(bits as i128)),
                        }
                    }
                }
                if let Const::Unevaluated(uv, _) = c.const_ {
                    o = o.s("named", path_of(self.tcx, uv.def));
                    if uv.promoted.is_some() {
                        o = o.i("promoted", uv.promoted.unwrap().as_usize());
                    }
                }
            }
        }
        o.done()
    }

    fn operand(&self, op: &Operand<'tcx>) -> J {
        match op {
            Operand::Copy(p) => J::obj().f("c", self.place(p)).done(),
            Operand::Move(p) => J::obj().f("m", self.place(p)).done(),
            Operand::Constant(c) => J::obj().f("k", self.konst(c)).done(),
            #[allow(unreachable_patterns)]
            _ => J::obj().s("other", format!("{:?}", op)).done(),
        }
    }

    fn callee(&self, did: DefId, args: ty::GenericArgsRef<'tcx>) -> J {
        let tcx = self.tcx;
        let mut o = J::obj()
            .s("id", key_of(tcx, did))
            .s("path", path_of(tcx, did))
            .s("inst", path_with_args(tcx, did, args))
            .b("local", did.is_local());
        if let Some(tr) = tcx.trait_of_assoc(did) {
            o = o.s("trait", path_of(tcx, tr));
            if let Some(self_ty) = args.types().next() {
                o = o.s("self_ty", ty_str(tcx, self_ty));
            }
        } else if let Some(imp) = tcx.inherent_impl_of_assoc(did) {
            let self_ty = tcx.type_of(imp).instantiate_identity().skip_norm_wip();
            o = o.s("impl_ty", ty_str(tcx, self_ty));
            // instantiated self type of the impl
            let inst_self = tcx.type_of(imp).instantiate(tcx, args).skip_norm_wip();
            o = o.s("self_ty", ty_str(tcx, inst_self));
        }
        // generic type arguments, in order
        let targs: Vec<J> = args.types().map(|t| J::s(ty_str(tcx, t))).collect();
        if !targs.is_empty() {
            o = o.f("targs", J::Arr(targs));
        }
        let mut res_did = None;
        match Instance::try_resolve(tcx, self.tenv, did, args) {
            Ok(Some(inst)) => {
                let rdid = inst.def_id();
                let kind = match inst.def {
                    InstanceKind::Item(_) => "item",
                    InstanceKind::Virtual(..) => "virtual",
                    InstanceKind::Intrinsic(_) => "intrinsic",
                    InstanceKind::ClosureOnceShim { .. } => "closure_once_shim",
                    InstanceKind::FnPtrShim(..) => "fnptr_shim",
                    InstanceKind::DropGlue(..) => "drop_glue",
                    InstanceKind::CloneShim(..) => "clone_shim",
                    InstanceKind::ReifyShim(..) => "reify_shim",
                    InstanceKind::VTableShim(_) => "vtable_shim",
                    _ => "other",
                };
                o = o.s("rkind", kind);
                if !matches!(inst.def, InstanceKind::Virtual(..)) {
                    o = o
                        .s("rid", key_of(tcx, rdid))
                        .s("rpath", path_of(tcx, rdid))
                        .b("rlocal", rdid.is_local());
                    if let Some(imp) = tcx.impl_of_assoc(rdid) {
                        let self_ty = tcx.type_of(imp).instantiate_identity().skip_norm_wip();
                        o = o.s("rimpl_ty", ty_str(tcx, self_ty));
                    }
                    res_did = Some(rdid);
                }
            }
            Ok(None) => {
                o = o.s("rkind", "unresolved");
            }
            Err(_) => {
                o = o.s("rkind", "error");
            }
        }
        let doc_did = res_did.unwrap_or(did);
        if !doc_did.is_local() && matches!(tcx.def_kind(doc_did), DefKind::Fn | DefKind::AssocFn) {
            if doc_has_panics(tcx, doc_did) || doc_has_panics(tcx, did) {
                o = o.b("doc_panics", true);
            }
        }
        o.done()
    }

    fn rvalue(&self, rv: &Rvalue<'tcx>) -> J {
        match rv {
            Rvalue::Use(op, ..) => J::obj().s("k", "use").f("op", self.operand(op)).done(),
            Rvalue::Repeat(op, _n) => J::obj().s("k", "repeat").f("op", self.operand(op)).done(),
            Rvalue::Ref(_, bk, p) => J::obj()
                .s("k", "ref")
                .b("mut", matches!(bk, BorrowKind::Mut { .. }))
                .f("place", self.place(p))
                .done(),
            Rvalue::RawPtr(_, p) => J::obj().s("k", "rawptr").f("place", self.place(p)).done(),
            Rvalue::ThreadLocalRef(did) => J::obj()
                .s("k", "tlsref")
                .s("def", path_of(self.tcx, *did))
                .done(),
            Rvalue::Cast(ck, op, ty) => {
                let ckind = match ck {
                    CastKind::PointerCoercion(pc, _) => format!("ptr:{:?}", pc),
                    other => format!("{:?}", other),
                };
                J::obj()
                    .s("k", "cast")
                    .s("ck", ckind)
                    .f("op", self.operand(op))
                    .s("ty", ty_str(self.tcx, *ty))
                    .done()
            }
            Rvalue::BinaryOp(op, ab) => {
                let (a, b) = &**ab;
                J::obj()
                    .s("k", "binop")
                    .s("op", format!("{:?}", op))
                    .f("a", self.operand(a))
                    .f("b", self.operand(b))
                    .s("aty", ty_str(self.tcx, a.ty(&self.body.local_decls, self.tcx)))
                    .done()
            }
            Rvalue::UnaryOp(op, a) => J::obj()
                .s("k", "unop")
                .s("op", format!("{:?}", op))
                .f("a", self.operand(a))
                .done(),
            Rvalue::Discriminant(p) => J::obj()
                .s("k", "discr")
                .f("place", self.place(p))
                .s("ty", ty_str(self.tcx, self.place_ty(p)))
                .done(),
            Rvalue::Aggregate(ak, ops) => {
                let mut o = J::obj().s("k", "aggr");
                match &**ak {
                    AggregateKind::Array(_) => o = o.s("ak", "array"),
                    AggregateKind::Tuple => o = o.s("ak", "tuple"),
                    AggregateKind::Adt(did, vidx, _args, _, _) => {
                        let adt = self.tcx.adt_def(*did);
                        o = o
                            .s("ak", "adt")
                            .s("adt", path_of(self.tcx, *did))
                            .s("variant", adt.variant(*vidx).name.to_string())
                            .i("vidx", vidx.as_usize());
                        let fnames: Vec<J> = adt
                            .variant(*vidx)
                            .fields
                            .iter()
                            .map(|f| J::s(f.name.to_string()))
                            .collect();
                        o = o.f("fnames", J::Arr(fnames));
                    }
                    AggregateKind::Closure(did, _) => {
                        o = o.s("ak", "closure").s("closure", key_of(self.tcx, *did))
                    }
                    AggregateKind::Coroutine(did, _) => {
                        o = o.s("ak", "coroutine").s("closure", key_of(self.tcx, *did))
                    }
                    AggregateKind::CoroutineClosure(did, _) => {
                        o = o.s("ak", "coroutine_closure").s("closure", key_of(self.tcx, *did))
                    }
                    AggregateKind::RawPtr(..) => o = o.s("ak", "rawptr"),
                }
                let fields: Vec<J> = ops.iter().map(|op| self.operand(op)).collect();
                o.f("ops", J::Arr(fields)).done()
            }
            Rvalue::CopyForDeref(p) => J::obj()
                .s("k", "use")
                .f("op", J::obj().f("c", self.place(p)).done())
                .done(),
            other => J::obj()
                .s("k", "other")
                .s("dbg", format!("{:?}", other).chars().take(200).collect::<String>())
                .done(),
        }
    }

    fn stmt(&self, st: &rustc_middle::mir::Statement<'tcx>) -> Option<J> {
        match &st.kind {
            StatementKind::Assign(b) => {
                let (p, rv) = &**b;
                let o = J::obj()
                    .f("lhs", self.place(p))
                    .f("rv", self.rvalue(rv));
                Some(line_fields(self.tcx, st.source_info.span, o).done())
            }
            StatementKind::SetDiscriminant { place, variant_index } => {
                let o = J::obj()
                    .f("lhs", self.place(place))
                    .f(
                        "rv",
                        J::obj()
                            .s("k", "setdiscr")
                            .i("vidx", variant_index.as_usize())
                            .done(),
                    );
                Some(line_fields(self.tcx, st.source_info.span, o).done())
            }
            StatementKind::StorageLive(_)
            | StatementKind::StorageDead(_)
            | StatementKind::Nop
            | StatementKind::FakeRead(..)
            | StatementKind::PlaceMention(..)
            | StatementKind::AscribeUserType(..)
            | StatementKind::Coverage(..)
            | StatementKind::ConstEvalCounter
            | StatementKind::BackwardIncompatibleDropHint { .. } => None,
            StatementKind::Intrinsic(i) => Some(
                J::obj()
                    .f("intrinsic", J::s(format!("{:?}", i).chars().take(120).collect::<String>()))
                    .done(),
            ),
            #[allow(unreachable_patterns)]
            other => Some(
                J::obj()
                    .f("other", J::s(format!("{:?}", other).chars().take(120).collect::<String>()))
                    .done(),
            ),
        }
    }

    fn unwind(&self, u: &UnwindAction) -> J {
        match u {
            UnwindAction::Cleanup(bb) => bbi(*bb),
            _ => J::Null,
        }
    }

    fn term(&self, t: &rustc_middle::mir::Terminator<'tcx>) -> J {
        let tcx = self.tcx;
        let o = match &t.kind {
            TerminatorKind::Goto { target } => J::obj().s("k", "goto").f("t", bbi(*target)),
            TerminatorKind::SwitchInt { discr, targets } => {
                let mut vals = Vec::new();
                for (v, bb) in targets.iter() {
                    vals.push(J::Arr(vec![J::Int(v as i128), bbi(bb)]));
                }
                J::obj()
                    .s("k", "switch")
                    .f("op", self.operand(discr))
                    .s("ty", ty_str(tcx, discr.ty(&self.body.local_decls, tcx)))
                    .f("vals", J::Arr(vals))
                    .f("otherwise", bbi(targets.otherwise()))
            }
            TerminatorKind::Return => J::obj().s("k", "ret"),
            TerminatorKind::Unreachable => J::obj().s("k", "unreachable"),
            TerminatorKind::UnwindResume => J::obj().s("k", "resume"),
            TerminatorKind::UnwindTerminate(_) => J::obj().s("k", "terminate"),
            TerminatorKind::Drop { place, target, unwind, .. } => {
                let ty = self.place_ty(place);
                let mut o = J::obj()
                    .s("k", "drop")
                    .f("place", self.place(place))
                    .s("ty", ty_str(tcx, ty))
                    .f("t", bbi(*target))
                    .f("unwind", self.unwind(unwind));
                if let ty::Adt(adt, _) = ty.kind() {
                    if let Some(d) = tcx.adt_destructor(adt.did()) {
                        o = o.s("drop_fn", key_of(tcx, d.did));
                        o = o.b("drop_local", d.did.is_local());
                    }
                }
                o
            }
            TerminatorKind::Call { func, args, destination, target, unwind, fn_span, .. } => {
                let mut o = J::obj().s("k", "call");
                match func.const_fn_def() {
                    Some((did, gargs)) => o = o.f("fn", self.callee(did, gargs)),
                    None => o = o.f("fnptr", self.operand(func)),
                }
                let a: Vec<J> = args.iter().map(|a| self.operand(&a.node)).collect();
                o = o
                    .f("args", J::Arr(a))
                    .f("dest", self.place(destination))
                    .s("dty", ty_str(tcx, self.place_ty(destination)))
                    .f("t", target.map(bbi).unwrap_or(J::Null))
                    .f("unwind", self.unwind(unwind));
                let (_, _, fexp, _) = loc(tcx, *fn_span);
                if fexp {
                    o = o.b("fn_exp", true);
                }
                o
            }
            TerminatorKind::TailCall { func, args, .. } => {
                let mut o = J::obj().s("k", "tailcall");
                if let Some((did, gargs)) = func.const_fn_def() {
                    o = o.f("fn", self.callee(did, gargs));
                }
                let a: Vec<J> = args.iter().map(|a| self.operand(&a.node)).collect();
                o.f("args", J::Arr(a))
            }
            TerminatorKind::Assert { cond, expected, msg, target, unwind } => {
                let kind = match &**msg {
                    AssertKind::BoundsCheck { .. } => "BoundsCheck".to_string(),
                    AssertKind::Overflow(op, ..) => format!("Overflow({:?})", op),
                    AssertKind::OverflowNeg(_) => "OverflowNeg".to_string(),
                    AssertKind::DivisionByZero(_) => "DivisionByZero".to_string(),
                    AssertKind::RemainderByZero(_) => "RemainderByZero".to_string(),
                    AssertKind::MisalignedPointerDereference { .. } => "MisalignedPointerDereference".to_string(),
                    AssertKind::NullPointerDereference => "NullPointerDereference".to_string(),
                    AssertKind::InvalidEnumConstruction(_) => "InvalidEnumConstruction".to_string(),
                    other => format!("{:?}", other).chars().take(60).collect(),
                };
                let mut o = J::obj()
                    .s("k", "assert")
                    .f("cond", self.operand(cond))
                    .b("expected", *expected)
                    .s("msg", kind)
                    .f("t", bbi(*target))
                    .f("unwind", self.unwind(unwind));
                match &**msg {
                    AssertKind::BoundsCheck { len, index } => {
                        o = o.f("len", self.operand(len)).f("index", self.operand(index));
                    }
                    AssertKind::Overflow(_, a, b) => {
                        o = o.f("a", self.operand(a)).f("b", self.operand(b));
                    }
                    AssertKind::DivisionByZero(a) | AssertKind::RemainderByZero(a) => {
                        o = o.f("a", self.operand(a));
                    }
                    _ => {}
                }
                o
            }
            TerminatorKind::Yield { resume, drop, .. } => J::obj()
                .s("k", "yield")
                .f("t", bbi(*resume))
                .f("drop", drop.map(bbi).unwrap_or(J::Null)),
            TerminatorKind::CoroutineDrop => J::obj().s("k", "coroutine_drop"),
            TerminatorKind::FalseEdge { real_target, .. } => {
                J::obj().s("k", "goto").f("t", bbi(*real_target))
            }
            TerminatorKind::FalseUnwind { real_target, .. } => {
                J::obj().s("k", "goto").f("t", bbi(*real_target))
            }
            TerminatorKind::InlineAsm { .. } => J::obj().s("k", "asm"),
        };
        line_fields(tcx, t.source_info.span, o).done()
    }
}

fn is_str_like(ty: Ty<'_>) -> bool {
    match ty.kind() {
        ty::Ref(_, inner, _) => matches!(inner.kind(), ty::Str),
        _ => false,
    }
}

fn slice_bytes<'tcx>(tcx: TyCtxt<'tcx>, val: &ConstValue, ty: Ty<'tcx>) -> Option<&'tcx [u8]> {
    match ty.kind() {
        ty::Ref(_, inner, _) => match inner.kind() {
            ty::Str => val.try_get_slice_bytes_for_diagnostics(tcx),
            ty::Slice(e) if matches!(e.kind(), ty::Uint(ty::UintTy::U8)) => {
                val.try_get_slice_bytes_for_diagnostics(tcx)
            }
            ty::Array(e, _) if matches!(e.kind(), ty::Uint(ty::UintTy::U8)) => {
                // &[u8; N]: pointer to an allocation
                if let ConstValue::Scalar(rustc_middle::mir::interpret::Scalar::Ptr(ptr, _)) = val {
                    let (prov, offset) = ptr.prov_and_relative_offset();
                    let alloc_id = prov.alloc_id();
                    if let Some(rustc_middle::mir::interpret::GlobalAlloc::Memory(alloc)) =
                        tcx.try_get_global_alloc(alloc_id)
                    {
                        let a = alloc.inner();
                        let start = offset.bytes_usize();
                        let all = a.inspect_with_uninit_and_ptr_outside_interpreter(0..a.len());
                        return all.get(start..);
                    }
                }
                None
            }
            _ => None,
        },
        _ => None,
    }
}
