//! Minimal JSON value + writer (the driver has no cargo dependencies).

use std::fmt::Write;

#[derive(Clone, Debug)]
pub enum J {
    Null,
    Bool(bool),
    Int(i128),
    Str(String),
    Arr(Vec<J>),
    Obj(Vec<(&'static str, J)>),
}

impl J {
    pub fn s<T: Into<String>>(t: T) -> J {
        J::Str(t.into())
    }
    pub fn obj() -> ObjB {
        ObjB(Vec::new())
    }
    pub fn write(&self, out: &mut String) {
        match self {
            J::Null => out.push_str("null"),
            J::Bool(b) => out.push_str(if *b { "true" } else { "false" }),
            J::Int(i) => {
                let _ = write!(out, "{}", i);
            }
            J::Str(s) => write_str(s, out),
            J::Arr(v) => {
                out.push('[');
                for (i, x) in v.iter().enumerate() {
                    if i > 0 {
                        out.push(',');
                    }
                    x.write(out);
                }
                out.push(']');
            }
            J::Obj(v) => {
                out.push('{');
                for (i, (k, x)) in v.iter().enumerate() {
                    if i > 0 {
                        out.push(',');
                    }
                    write_str(k, out);
                    out.push(':');
                    x.write(out);
                }
                out.push('}');
            }
        }
    }
}

pub struct ObjB(Vec<(&'static str, J)>);

impl ObjB {
    pub fn f(mut self, k: &'static str, v: J) -> Self {
        self.0.push((k, v));
        self
    }
    pub fn s<T: Into<String>>(self, k: &'static str, v: T) -> Self {
        self.f(k, J::Str(v.into()))
    }
    pub fn i<T: TryInto<i128>>(self, k: &'static str, v: T) -> Self {
        self.f(k, J::Int(v.try_into().ok().unwrap_or(-1)))
    }
    pub fn b(self, k: &'static str, v: bool) -> Self {
        self.f(k, J::Bool(v))
    }
    pub fn opt(self, k: &'static str, v: Option<J>) -> Self {
        match v {
            Some(v) => self.f(k, v),
            None => self,
        }
    }
    pub fn done(self) -> J {
        J::Obj(self.0)
    }
}

fn write_str(s: &str, out: &mut String) {
    out.push('"');
    for c in s.chars() {
        match c {
            '"' => out.push_str("\\\""),
            '\\' => out.push_str("\\\\"),
            '\n' => out.push_str("\\n"),
            '\r' => out.push_str("\\r"),
            '\t' => out.push_str("\\t"),
            c if (c as u32) < 0x20 => {
                let _ = write!(out, "\\u{:04x}", c as u32);
            }
            c => out.push(c),
        }
    }
    out.push('"');
}
