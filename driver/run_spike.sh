#!/bin/bash
# dev helper: run driver on /repo into /tmp/sa_out
rm -rf /tmp/sa_t/debug/.fingerprint/svgdx-* /tmp/sa_out/*
cd /repo && LD_LIBRARY_PATH=$(rustc +nightly --print sysroot)/lib RUSTFLAGS="-Zmir-opt-level=0 -Awarnings" RUSTC_WORKSPACE_WRAPPER=/verif/driver/target/debug/svgdx-sa SVGDX_SA_OUT=/tmp/sa_out SVGDX_SA_NONCE=abc CARGO_TARGET_DIR=/tmp/sa_t RUST_BACKTRACE=1 cargo +nightly check --offline 2>&1 | grep -v "^process didn" | grep -v "process didn't exit" | cut -c1-400 | tail -${1:-30}
ls -la /tmp/sa_out
